"""C17 - boolean, comparison and range rewrites are logically equivalent.

Ties: (1) the pair table is regenerated from 216 probes of the running `simplify_boolean_expressions`
(tablegen.bound_table) and the theorems `boundTable_ok` / `boundTable_rank_ok` are re-checked by `lake build`;
(2) suite `bounds`: the n-ary model `C17.simplifyNode` vs the rewrite the real rule yields for the top `and`/`or`
node of generated formulas; (3) suite `negate`: `fixes._negate_condition` vs `C17.negate`; ...
Oracle (search + unconditional slice): truth-table equivalence of before/after on an integer box."""
from __future__ import annotations

import ast
import itertools
import json

import common
from common import Suite

TRUSTED = [
    "C17: sympy.simplify (simplify_boolean_expressions_symmath) is an external function assumed to return a logically equivalent formula; its instances are checked by truth table only",
    "C17: the probe abstraction (decision depends only on operator pair, order of constants, connective) is validated by the bounds suite on random constants",
]
ASSUMPTIONS = [
    "integer semantics of comparisons; operands are comparisons of an expression with an integer constant, opaque boolean atoms, and nested same-operator groups",
]

OPSYM = {"eq": "==", "ne": "!=", "gt": ">", "ge": ">=", "lt": "<", "le": "<="}
OPPOSITE = {"eq": "eq", "ne": "ne", "gt": "lt", "lt": "gt", "ge": "le", "le": "ge"}
VARS = ["x", "z", "w", "y"]
ATOMS = ["p", "q", "r"]


# ------------------------------------------------------------------------------------------ formulas

def item_text(it):
    if it[0] == "cmp":
        _, v, op, c, fl, neg, _d = it
        t = f"{c} {OPSYM[op]} {VARS[v]}" if fl else f"{VARS[v]} {OPSYM[op]} {c}"
    else:
        _, i, neg, _d = it
        t = ATOMS[i] if i < len(ATOMS) else f"g{i}()"
    return f"not {t}" if neg else t


def gen_item(r, direct, consts):
    x = r.random()
    if x < 0.80:
        return ["cmp", r.choice([0, 0, 0, 1]), r.choice(list(OPSYM)), r.choice(consts), r.random() < 0.2, r.random() < 0.06, direct]
    return ["atom", r.randrange(2), r.random() < 0.3, direct]


def gen_formula(r, consts=(0, 1, 2, 3)):
    """returns (conn, structure) where structure is a list of direct operands; an operand is an item or
    ('group', [items]) = nested same-operator child"""
    conn = r.choice(["and", "or"])
    ops = []
    for _ in range(r.randint(2, 4)):
        if r.random() < 0.12:
            ops.append(("group", [gen_item(r, False, consts) for _ in range(2)]))
        else:
            ops.append(gen_item(r, True, consts))
    return conn, ops


def flatten(ops):
    """items in source order + mapping from flat index to the index of the direct operand"""
    items, owner = [], []
    for k, op in enumerate(ops):
        if op[0] == "group":
            for it in op[1]:
                items.append(it)
                owner.append(k)
        else:
            items.append(op)
            owner.append(k)
    return items, owner


def op_text(conn, op):
    if op[0] == "group":
        return "(" + f" {conn} ".join(item_text(i) for i in op[1]) + ")"
    return item_text(op)


def formula_text(conn, ops):
    return f" {conn} ".join(op_text(conn, o) for o in ops)


def expected_text(conn, ops, ans):
    """the formula the model predicts, or None for 'no rewrite of this node'"""
    if ans["r"] == "none":
        return None
    if ans["r"] == "const":
        return "True" if ans["v"] else "False"
    items, owner = flatten(ops)
    dropped = {owner[i] for i in ans["idx"]}
    kept = [o for k, o in enumerate(ops) if k not in dropped]
    if len(kept) == 1:
        t = op_text(conn, kept[0])
        return t[1:-1] if kept[0][0] == "group" else t
    return formula_text(conn, kept)


def real_top_rewrite(src):
    """what the real rule yields for the top-level BoolOp of `y = <formula>` (None = nothing)"""
    from pyrefact import core, symbolic_math as sm

    inner = getattr(sm.simplify_boolean_expressions, "_fix_func", None)
    if inner is None:
        raise RuntimeError("simplify_boolean_expressions has no _fix_func")
    yields = list(inner(src))
    root = core.parse(src)
    top = root.body[0].value
    for tup in yields:
        old, new = tup[0], tup[1]
        if old is top:
            return ast.unparse(new) if isinstance(new, ast.AST) else str(new)
    return None


def norm(expr):
    return None if expr is None else ast.dump(ast.parse(expr, mode="eval"))


def equivalent(before, after, box=range(-3, 7), truthy=False):
    """truth-table oracle over the integer box and all atom valuations; returns a counterexample or None"""
    names = sorted({n.id for n in ast.walk(ast.parse(before, mode="eval")) if isinstance(n, ast.Name)}
                   | {n.id for n in ast.walk(ast.parse(after, mode="eval")) if isinstance(n, ast.Name)})
    ivars = [n for n in names if n in VARS or n == "n"]
    bvars = [n for n in names if n not in ivars]
    cb, ca = compile(before, "<b>", "eval"), compile(after, "<a>", "eval")
    for ivals in itertools.product(box, repeat=len(ivars)):
        for bvals in itertools.product([False, True], repeat=len(bvars)):
            env = dict(zip(ivars, ivals))
            env.update(zip(bvars, bvals))
            try:
                vb = eval(cb, {}, dict(env))
            except Exception as ex:
                vb = ("exc", type(ex).__name__)
            try:
                va = eval(ca, {}, dict(env))
            except Exception as ex:
                va = ("exc", type(ex).__name__)
            if truthy and not isinstance(vb, tuple) and not isinstance(va, tuple):
                vb, va = bool(vb), bool(va)
            if vb != va or type(vb) is not type(va):
                return env
    return None


def bounds_suite(ctx):
    s = Suite("bounds")
    r = ctx.rng("bounds")
    cases = []
    p = common.CORPUS / "C17_bounds.jsonl"
    if p.exists():
        for line in p.read_text().splitlines():
            d = json.loads(line)
            cases.append((d["conn"], [tuple(o) if o[0] == "group" else o for o in d["ops"]]))
    n = ctx.n(1500, 30000)
    while len(cases) < n:
        consts = r.choice([(0, 1, 2, 3), (-2, 0, 5), (1, 2), (-1, 0, 1, 2, 3, 4)])
        cases.append(gen_formula(r, consts))
    reqs = []
    for conn, ops in cases:
        items, _ = flatten(ops)
        reqs.append({"suite": "bounds", "isAnd": conn == "and", "items": items})
    answers = ctx.driver.ask(reqs)
    for (conn, ops), ans in zip(cases, answers):
        s.cases += 1
        text = formula_text(conn, ops)
        src = f"y = {text}\n"
        if "r" not in ans or ans["r"] == "bad-request":
            s.disagreements.append({"formula": text, "what": "driver refused", "model": ans})
            continue
        exp = expected_text(conn, ops, ans)
        try:
            real = real_top_rewrite(src)
        except Exception as ex:
            s.disagreements.append({"formula": text, "conn": conn, "ops": ops, "what": f"real code raised {ex!r}"})
            continue
        s.count(ans["r"])
        if norm(exp) != norm(real):
            s.disagreements.append({"formula": text, "conn": conn, "ops": ops, "model": exp, "real": real,
                                    "what": "rewrite of the top node differs"})
        if ans["r"] != "none":
            s.nt(text)
            if len(s.samples) < 3:
                s.samples.append({"suite": "bounds", "formula": text, "model": exp, "real": real})
    s.note = ("random and/or nodes with 2-4 operands: comparisons of x/z with constants (20% written constant-first, 6% negated), "
              "boolean atoms, 12% nested same-operator groups; compared: the rewrite yielded for the top node (ast.dump); "
              "non-trivial = the model predicts a rewrite")
    return s


def bounds_oracle_suite(ctx):
    """truth-table equivalence of what the real rule does to generated formulas (one pass)"""
    from pyrefact import symbolic_math as sm
    import tablegen

    s = Suite("bounds-oracle", kind="oracle")
    r = ctx.rng("bounds-oracle")
    for _ in range(ctx.n(400, 8000)):
        conn, ops = gen_formula(r, r.choice([(0, 1, 2, 3), (1, 2), (-1, 0, 2)]))
        text = formula_text(conn, ops)
        s.cases += 1
        try:
            out = tablegen.one_pass(sm.simplify_boolean_expressions, f"y = {text}\n").strip()[4:]
        except Exception as ex:
            s.disagreements.append({"formula": text, "what": f"real code raised {ex!r}"})
            continue
        if out == text:
            continue
        s.nt(text)
        cex = equivalent(text, out)
        if cex is not None:
            s.disagreements.append({"formula": text, "after": out, "valuation": cex,
                                    "what": f"{text!r} -> {out!r} differ at {cex}"})
    s.note = "one pass of simplify_boolean_expressions on generated formulas; before/after compared on the box [-3,6]^n x all atom valuations; non-trivial = text changed"
    return s



# ------------------------------------------------------------------------------------------ negation

COPSYM = {"eq": "==", "ne": "!=", "gt": ">", "lt": "<", "ge": ">=", "le": "<=", "in_": "in", "notIn": "not in",
          "is_": "is", "isNot": "is not"}
ATOM_TEXT = ["p", "q", "f(x)", "a < b < c", "x < 3 < z", "0 <= x < 2", "1 == x != z", "x > 1 >= 0", "not_p"]


def gen_cond(r, depth=0):
    x = r.random()
    if depth >= 3 or x < 0.45:
        if r.random() < 0.8:
            l = ["var", r.randrange(2)] if r.random() < 0.8 else ["const", r.randint(-2, 3)]
            rr = ["const", r.randint(-2, 3)] if r.random() < 0.7 else ["var", r.randrange(2)]
            return ["cmp", l, r.choice(list(COPSYM)), rr]
        return ["atom", r.randrange(len(ATOM_TEXT) - 1)]
    if x < 0.6:
        return ["not", gen_cond(r, depth + 1)]
    return [r.choice(["and", "or"]), [gen_cond(r, depth + 1) for _ in range(r.randint(2, 3))]]


def term_text(t):
    return VARS[t[1]] if t[0] == "var" else (f"({t[1]})" if t[1] < 0 else str(t[1]))


def cond_text(c):
    k = c[0]
    if k == "cmp":
        return f"{term_text(c[1])} {COPSYM[c[2]]} {term_text(c[3])}"
    if k == "atom":
        return f"({ATOM_TEXT[c[1]]})"
    if k == "not":
        return f"(not {cond_text(c[1])})"
    return "(" + f" {k} ".join(cond_text(x) for x in c[1]) + ")"


def negate_suite(ctx):
    from pyrefact import fixes

    s = Suite("negate")
    r = ctx.rng("negate")
    cases = [gen_cond(r) for _ in range(ctx.n(800, 15000))]
    answers = ctx.driver.ask([{"suite": "negate", "c": c} for c in cases])
    import tablegen
    rule = getattr(fixes, "replace_negated_numeric_comparison", None)
    for c, ans in zip(cases, answers):
        s.cases += 1
        text = cond_text(c)
        if "negate" not in ans:
            s.disagreements.append({"cond": text, "what": "driver refused", "model": ans})
            continue
        node = ast.parse(text, mode="eval").body
        try:
            real = ast.unparse(fixes._negate_condition(node))
        except Exception as ex:
            s.disagreements.append({"cond": text, "c": c, "what": f"_negate_condition raised {ex!r}"})
            continue
        exp = cond_text(ans["negate"])
        s.count(c[0])
        if norm(exp) != norm(real):
            s.disagreements.append({"cond": text, "c": c, "model": exp, "real": real, "what": "_negate_condition differs"})
        if c[0] in ("and", "or"):
            s.nt(text)
        # replace_negated_numeric_comparison on a top-level `not (cmp)`
        if c[0] == "not" and c[1][0] == "cmp" and rule is not None:
            src = f"y = {text[1:-1]}\n"
            out = tablegen.one_pass(rule, src).strip()[4:]
            expf = cond_text(ans["flip"])
            if norm(expf) != norm(out):
                s.disagreements.append({"cond": text, "c": c, "model": expf, "real": out, "what": "replace_negated_numeric_comparison differs"})
            s.count("flip")
            s.nt("flip:" + text)
        # ... and on a negated opaque atom (comparison chains are atoms of the model: the rule must leave them alone)
        if c[0] == "not" and c[1][0] == "atom" and rule is not None:
            src = f"y = {text[1:-1]}\n"
            out = tablegen.one_pass(rule, src).strip()[4:]
            if norm(text) != norm(out):
                s.disagreements.append({"cond": text, "c": c, "model": text, "real": out, "formula": text[1:-1],
                                        "what": "replace_negated_numeric_comparison rewrites a negated chain / opaque condition that the model leaves alone"})
            s.count("flip-atom")
            s.nt("flip:" + text)
        if len(s.samples) < 2 and c[0] in ("and", "or"):
            s.samples.append({"suite": "negate", "cond": text, "negated": real})
    s.note = ("random conditions of depth <=3 over comparisons (10 operators incl. in/is), atoms, not, and/or; "
              "fixes._negate_condition and replace_negated_numeric_comparison vs the model (ast.dump of the result); "
              "non-trivial = and/or at the root, or a flip case")
    return s


def negate_oracle(ctx):
    """truth-table: `_negate_condition(c)` is the complement of c (numeric operators only)"""
    from pyrefact import fixes

    s = Suite("negate-oracle", kind="oracle")
    r = ctx.rng("negate-oracle")
    num = ["eq", "ne", "gt", "lt", "ge", "le"]
    for _ in range(ctx.n(200, 4000)):
        c = gen_cond(r)
        text = cond_text(c)
        if any(op in text for op in (" in ", " is ")) or "f(x)" in text or "a < b" in text:
            continue
        s.cases += 1
        node = ast.parse(text, mode="eval").body
        neg = ast.unparse(fixes._negate_condition(node))
        cex = equivalent(f"not ({text})", neg, truthy=True)
        if cex is not None:
            s.disagreements.append({"cond": text, "after": neg, "valuation": cex, "what": f"negation of {text!r} is {neg!r}; not complementary at {cex}"})
        s.nt(text)
    s.note = "numeric-operator conditions: not(c) vs _negate_condition(c) on the box [-3,6]^n x atom valuations"
    return s


# ------------------------------------------------------------------------------------------ range folding

RSYM = {"gt": ">", "lt": "<", "ge": ">=", "le": "<=", "eq": "=="}
OTHER_TEXT = ["x % 2 == 0", "x != 3", "f(x)"]


def rcond_text(c, flipped):
    if c[0] == "other":
        return OTHER_TEXT[c[1]]
    if flipped:
        rev = {"gt": "<", "lt": ">", "ge": "<=", "le": ">=", "eq": "=="}[c[0]]
        return f"{c[1]} {rev} x"
    return f"x {RSYM[c[0]]} {c[1]}"


def parse_range_result(out):
    """-> ('empty',) | ('range', start, stop, [cond texts]) from the rewritten comprehension text"""
    node = ast.parse(out, mode="eval").body
    comp = node.generators[0]
    if isinstance(comp.iter, ast.Tuple) and not comp.iter.elts:
        return ("empty",)
    args = [ast.literal_eval(a) for a in comp.iter.args]
    if len(args) == 1:
        args = [0, args[0]]
    conds = []
    for c in comp.ifs:
        conds.extend(ast.unparse(v) for v in (c.values if isinstance(c, ast.BoolOp) else [c]))
    return ("range", args[0], args[1], conds)


def negation_family():
    """negated comparisons and comparison chains (1-3 links) with numeric literals in every position"""
    ops = ["<", "<=", ">", ">=", "==", "!="]
    out = []
    for o1 in ops:
        for (l, r) in (("x", "3"), ("3", "x"), ("x", "z"), ("x", "-1"), ("2.5", "x")):
            out.append(f"not {l} {o1} {r}")
        for o2 in ops:
            for (a, b, c) in (("x", "3", "z"), ("0", "x", "5"), ("x", "z", "4"), ("1", "x", "z"), ("x", "z", "w"), ("x", "x", "2")):
                out.append(f"not {a} {o1} {b} {o2} {c}")
                out.append(f"not ({a} {o1} {b} {o2} {c})")
    for (o1, o2, o3) in itertools.product(["<", "<=", ">=", "=="], repeat=3):
        out.append(f"not 0 {o1} x {o2} z {o3} 5")
    for e in ("not x in (1, 2)", "not x not in (1, 2)", "not x is None", "not 1 < x in (2, 3)", "not (x < 3) < z", "not x < 3 and z", "w and not x <= 2 < z", "not (not x < 1 < z)"):
        out.append(e)
    return list(dict.fromkeys(out))


def negation_oracle(ctx):
    """the property on the real rule: `not <comparison>` rewritten by replace_negated_numeric_comparison has the same value under every valuation"""
    import tablegen
    from pyrefact import fixes

    s = Suite("negation-oracle", kind="oracle")
    rule = getattr(fixes, "replace_negated_numeric_comparison", None)
    for text in negation_family():
        s.cases += 1
        try:
            out = tablegen.one_pass(rule, f"y = {text}\n").strip()[4:] if rule is not None else text
        except Exception as ex:
            s.disagreements.append({"formula": text, "what": f"replace_negated_numeric_comparison raised {ex!r}"})
            continue
        if norm(out) == norm(text):
            s.count("unchanged")
            continue
        s.count("rewritten")
        s.nt(text)
        cex = equivalent(text, out, box=range(-2, 7))
        if cex is not None:
            s.disagreements.append({"formula": text, "out": out, "valuation": cex, "rule": "replace_negated_numeric_comparison",
                                    "what": f"replace_negated_numeric_comparison: {text!r} -> {out!r} differ at {cex}"})
    s.note = ("negated comparisons and comparison chains of 1-3 links over {<, <=, >, >=, ==, !=} with integer / float literals in every position, membership and identity tests, parenthesised and nested forms (fixed family): "
              "every rewrite of replace_negated_numeric_comparison is evaluated before and after on the box [-2, 6]^n; non-trivial = the rule rewrites the expression")
    return s


def rangefold_suite(ctx):
    from pyrefact import symbolic_math as sm
    import tablegen

    s = Suite("rangefold")
    r = ctx.rng("rangefold")
    cases = []
    for _ in range(ctx.n(500, 8000)):
        start, stop = r.randint(-3, 6), r.randint(-3, 9)
        k = r.randint(1, 3)
        conds, flips = [], []
        for _ in range(k):
            if r.random() < 0.2:
                conds.append(["other", r.randrange(len(OTHER_TEXT))])
            else:
                conds.append([r.choice(list(RSYM)), r.randint(0, 8)])  # comparators must be non-negative literals
            flips.append(r.random() < 0.25)
        cases.append((start, stop, conds, flips))
    # the code iterates a set of condition nodes: any visiting order is possible
    reqs, index = [], []
    for ci, (start, stop, conds, flips) in enumerate(cases):
        for perm in itertools.permutations(range(len(conds))):
            reqs.append({"suite": "rangefold", "start": start, "stop": stop, "conds": [conds[i] for i in perm]})
            index.append((ci, perm))
    answers = ctx.driver.ask(reqs)
    by_case = {}
    for (ci, perm), ans in zip(index, answers):
        by_case.setdefault(ci, []).append((perm, ans))
    for ci, (start, stop, conds, flips) in enumerate(cases):
        s.cases += 1
        texts = [rcond_text(c, f) for c, f in zip(conds, flips)]
        rng_txt = f"range({stop})" if start == 0 and r.random() < 0.5 else f"range({start}, {stop})"
        src = f"y = [x for x in {rng_txt} if {' and '.join(texts)}]\n"
        try:
            out = tablegen.one_pass(sm.simplify_constrained_range, src).strip()[4:]
        except Exception as ex:
            s.disagreements.append({"src": src, "what": f"simplify_constrained_range raised {ex!r}"})
            continue
        real = ("none",) if out == src.strip()[4:] else parse_range_result(out)
        preds = []
        for perm, ans in by_case[ci]:
            if ans["r"] in ("none", "empty"):
                preds.append((ans["r"],))
            else:
                red = dict(zip(perm, ans["red"]))
                kept = ["True" if red[i] else texts[i] for i in range(len(conds))]
                preds.append(("range", ans["start"], ans["stop"], kept))
        s.count(real[0])
        if real not in preds:
            s.disagreements.append({"src": src, "model_any_order": [list(p) for p in preds[:6]], "real": list(real),
                                    "what": "rewrite is not the model's result for any visiting order of the conditions"})
        if real[0] != "none":
            s.nt(src)
            if len(s.samples) < 2:
                s.samples.append({"suite": "rangefold", "src": src.strip(), "real": out})
    s.note = ("range(start, stop) with literal bounds in [-3,9], 1-3 conditions x>c / c<x / ... / other; the real one-pass "
              "rewrite must equal the model's result for some visiting order of the condition set; non-trivial = rewritten")
    return s


def rangefold_oracle(ctx):
    """list equality before/after, including non-literal bounds, steps, floats (where the rule must not fire wrongly)"""
    from pyrefact import symbolic_math as sm
    import tablegen

    s = Suite("rangefold-oracle", kind="oracle")
    r = ctx.rng("rangefold-oracle")
    argsets = [("5",), ("0", "5"), ("2", "7"), ("7", "2"), ("0", "7", "2"), ("1", "8", "3"), ("n",), ("n", "6"), ("2", "n"),
               ("0", "6", "n"), ("0", "7", "1"), ("7", "0", "-1"), ("-2", "4"), ("10",)]
    for _ in range(ctx.n(400, 6000)):
        args = r.choice(argsets)
        conds = []
        for _ in range(r.randint(1, 2)):
            c = r.choice([-1, 0, 2, 5, 7, 10, 2.5])
            op = r.choice([">", "<", ">=", "<=", "=="])
            conds.append(f"{c} {op} x" if r.random() < 0.3 else f"x {op} {c}")
        src = f"y = [x for x in range({', '.join(args)}) if {' and '.join(conds)}]\n"
        s.cases += 1
        try:
            out = tablegen.one_pass(sm.simplify_constrained_range, src)
        except Exception as ex:
            s.disagreements.append({"src": src, "what": f"simplify_constrained_range raised {ex!r} on {src!r}"})
            continue
        if out == src:
            continue
        s.nt(src)
        for nv in (-2, 0, 1, 2, 3, 4, 6, 9):
            vals = []
            for code in (src, out):
                env = {"n": nv}
                try:
                    exec(code, env)
                    vals.append(env["y"])
                except Exception as ex:
                    vals.append("EXC " + type(ex).__name__)
            if vals[0] != vals[1]:
                s.disagreements.append({"src": src, "after": out, "n": nv, "what": f"{src.strip()!r} -> {out.strip()!r}: {vals[0]} vs {vals[1]} (n={nv})"})
                break
    s.note = "comprehensions over range() with literal / non-literal bounds and steps, int and float comparators; list equality before/after one pass"
    return s


def sumrange_suite(ctx):
    from pyrefact import symbolic_math as sm
    import tablegen

    s = Suite("sumrange")
    box = range(-4, 9) if ctx.thorough else range(-2, 6)
    pairs = [(a, b) for a in box for b in box]
    answers = ctx.driver.ask([{"suite": "sumrange", "a": a, "b": b} for a, b in pairs])
    for (a, b), ans in zip(pairs, answers):
        s.cases += 1
        src = f"y = sum(range({a}, {b}))\n"
        try:
            out = tablegen.one_pass(sm.simplify_math_iterators, src).strip()[4:]
            real = ast.literal_eval(out)
        except Exception as ex:
            s.disagreements.append({"src": src, "what": f"simplify_math_iterators: {ex!r}"})
            continue
        if real != ans["closed"]:
            s.disagreements.append({"src": src, "model": ans["closed"], "real": real, "what": "closed form differs from the model"})
        if a < b:
            s.nt([a, b])
        s.count("reversed" if a > b else "forward")
    s.samples.append({"suite": "sumrange", "src": "y = sum(range(2, 5))", "closed": 9})
    s.note = "sum(range(a, b)) for all literal a, b in the box: value emitted by simplify_math_iterators vs the model's sumEmitted (0 for an empty range, the closed form otherwise); non-trivial = a < b"
    return s


def stepped_sum_oracle(ctx):
    """sums over stepped ranges and over comprehensions of ranges with literal bounds: executed before and after; symbolic bounds must not crash"""
    from pyrefact import symbolic_math as sm
    import tablegen

    s = Suite("stepped-sums", kind="oracle")
    box = range(-3, 9) if ctx.thorough else range(-2, 7)
    steps = (-3, -2, -1, 1, 2, 3)
    bodies = ["i", "i * i", "i + 1", "2 * i - 1"]
    srcs = []
    for a in box:
        for b in box:
            for st in steps:
                srcs.append(f"y = sum(range({a}, {b}, {st}))\n")
                for body in (bodies if ctx.thorough else bodies[:2]):
                    srcs.append(f"y = sum({body} for i in range({a}, {b}, {st}))\n")
            srcs.append(f"y = sum(i + j for i in range({a}, {b}) for j in range({b}, {a}, -1))\n")
    srcs += ["y = sum(i * 3 for i in range(a, b, 2))\n", "y = sum(i for i in range(a, b, c))\n", "y = sum(range(a, b, 2))\n", "y = sum(i * 2 for i in range(1, 9, 0))\n",
             "y = sum(v for v in range(a % 4 + 1))\n", "y = sum(i // 2 for i in range(a))\n", "y = sum(abs(i) for i in range(-3, 4))\n"]
    for src in srcs:
        s.cases += 1
        try:
            out = tablegen.one_pass(sm.simplify_math_iterators, src)
        except Exception as ex:  # noqa: BLE001
            s.disagreements.append({"src": src, "what": f"simplify_math_iterators raised {ex!r}"})
            continue
        if out == src:
            continue
        s.nt(src)
        res = []
        for text in (src, out):
            env = {"a": 1, "b": 9, "c": 3}
            try:
                exec(text, env)
                res.append(env["y"])
            except Exception as ex:  # noqa: BLE001
                res.append("exc:" + type(ex).__name__)
        if res[0] != res[1]:
            s.disagreements.append({"src": src, "out": out, "before": res[0], "after": res[1], "what": f"simplify_math_iterators changes the value of {src.strip()!r}: {res[0]} -> {res[1]}"})
    s.note = ("sum(range(a, b, s)) and sum(f(i) for i in range(a, b, s)) for all literal a, b in the box, s in -3..3 without 0, 4 bodies, two-clause comprehensions with a reversed second "
              "range, and 7 symbolic shapes (bounds that are names, zero step, modulo, floor division): the rule must not raise and the value of y is the same before and after; "
              "non-trivial = the rule rewrote the sum")
    return s


def symmath_oracle(ctx):
    """sympy-based simplification: every rewrite is checked by truth table, formulas are processed one after the
    other in this process (same and/or shapes recur)"""
    from pyrefact import symbolic_math as sm
    import tablegen

    s = Suite("symmath-oracle", kind="oracle")
    r = ctx.rng("symmath")
    shapes = ["{a} and ({a} or {b})", "{a} or ({a} and {b})", "({a} and {b}) or ({a} and not {b})", "not (not {a})",
              "({a} or {b}) and ({a} or not {b})", "{a} and {b} and {a}", "not ({a} and {b}) or {a}"]
    atoms = ["x > 1", "x < 0", "y > 2", "y == 1", "x == 0", "p", "q", "x <= 2", "y >= 3"]
    for _ in range(ctx.n(60, 600)):
        shape = r.choice(shapes)
        a, b = r.sample(atoms, 2)
        text = shape.format(a=a, b=b)
        s.cases += 1
        try:
            out = tablegen.one_pass(sm.simplify_boolean_expressions_symmath, f"r = {text}\n").strip()[4:]
        except Exception as ex:
            s.disagreements.append({"formula": text, "what": f"simplify_boolean_expressions_symmath raised {ex!r}"})
            continue
        if out == text:
            continue
        s.nt(text)
        cex = equivalent(text, out, box=range(-1, 5), truthy=True)
        if cex is not None:
            s.disagreements.append({"formula": text, "after": out, "valuation": cex, "rule": "symmath",
                                    "what": f"symmath: {text!r} -> {out!r} differ (as truth values) at {cex}"})
    s.note = "absorption / distribution / double-negation shapes over comparison and boolean atoms, one process; truthiness compared on the box [-1,4]^n"
    return s


def suites(ctx):
    common.import_pyrefact()
    return [bounds_suite(ctx), bounds_oracle_suite(ctx), negate_suite(ctx), negate_oracle(ctx), negation_oracle(ctx), rangefold_suite(ctx),
            rangefold_oracle(ctx), sumrange_suite(ctx), stepped_sum_oracle(ctx), symmath_oracle(ctx)]


def match_known(d, known):
    f = d.get("formula")
    src = (d.get("src") or "").strip()
    for k in known:
        if k["kind"] != "finding":
            continue
        w = k.get("witness", {})
        if (f is not None and w.get("formula") == f) or (src and w.get("src") == src):
            return k
    return None


def exec_differs(rule_name, src, var="y", envs=({},)):
    """run one pass of a symbolic_math rule on `src`; execute before/after; True if `var` differs"""
    import tablegen
    from pyrefact import symbolic_math as sm

    out = tablegen.one_pass(getattr(sm, rule_name), src)
    if out == src:
        return False
    for env0 in envs:
        vals = []
        for code in (src, out):
            env = dict(env0)
            try:
                exec(code, env)
                vals.append(env.get(var))
            except Exception as ex:
                vals.append("EXC " + type(ex).__name__)
        if vals[0] != vals[1] or type(vals[0]) is not type(vals[1]):
            return True
    return False


def replay_witness(ctx, kf):
    common.import_pyrefact()
    import tablegen
    from pyrefact import symbolic_math as sm

    w = kf["witness"]
    if "formula" in w:
        out = tablegen.one_pass(sm.simplify_boolean_expressions, f"y = {w['formula']}\n").strip()[4:]
        return out != w["formula"] and equivalent(w["formula"], out) is not None
    if "src" in w:
        return exec_differs(w["rule"], w["src"] + "\n", envs=[{"n": v} for v in (-2, 0, 3)])
    return None


def search(ctx, breaks):
    """A broken table theorem names entries; a broken correspondence names formulas: look for a valuation
    on which the real rewrite changes the value."""
    common.import_pyrefact()
    import tablegen
    from pyrefact import symbolic_math as sm

    found = []
    cands = []
    for b in breaks:
        for d in b.get("inputs", []):
            if "formula" in d:
                cands.append(d["formula"])
    # every two-operand probe instance (this is where a table theorem breaks)
    for (n1, o1) in tablegen.OPS:
        for (n2, o2) in tablegen.OPS:
            for (c1, c2) in tablegen.REL_INST.values():
                for conn in ("and", "or"):
                    cands.append(f"x {o1} {c1} {conn} x {o2} {c2}")
    r = ctx.rng("search")
    for _ in range(3000):
        conn, ops = gen_formula(r)
        cands.append(formula_text(conn, ops))
    seen = set()
    for text in cands:
        if text in seen:
            continue
        seen.add(text)
        try:
            out = tablegen.one_pass(sm.simplify_boolean_expressions, f"y = {text}\n").strip()[4:]
        except Exception as ex:
            found.append({"formula": text, "what": f"simplify_boolean_expressions raised {ex!r} on {text!r}"})
            continue
        if out != text:
            cex = equivalent(text, out)
            if cex is not None:
                found.append({"formula": text, "after": out, "valuation": cex,
                              "what": f"simplify_boolean_expressions rewrites {text!r} to {out!r}; they differ at {cex}"})
        if len(found) >= 8:
            break
    ctx.log(f"search: {len(seen)} formulas tried, {len(found)} failing")
    return found


def replay(ctx, inp):
    common.import_pyrefact()
    import tablegen
    from pyrefact import symbolic_math as sm

    text = inp["formula"]
    rule = sm.simplify_boolean_expressions
    if inp.get("rule") == "replace_negated_numeric_comparison":
        from pyrefact import fixes

        rule = fixes.replace_negated_numeric_comparison
    out = tablegen.one_pass(rule, f"y = {text}\n").strip()[4:]
    cex = equivalent(text, out) if out != text else None
    print(f"{text!r} -> {out!r}; counterexample: {cex}")
    return cex is not None
