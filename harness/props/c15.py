"""C15 - compile-time constant evaluation agrees with Python.
Ties: suite `lit` (core.literal_value vs C15.litValue) and suite `pyeval` (CPython eval vs C15.ev, validating the reference
semantics) on the same generated expressions: exhaustive small depth over a leaf alphabet + random deeper ones.
Oracle: literal_value(e) == eval(e) on the real code, and constant conditions through remove_dead_ifs / format_code."""
from __future__ import annotations

import contextlib
import io

import ast
import itertools

import common
from common import Suite

TRUSTED = ["C15: floats, complex, bytes, dict/set literals, string ordering, sequence repetition, string methods are outside the fragment (the model answers 'oof' and the case is not compared); they are covered by the eval oracle only"]
ASSUMPTIONS = ["identity tests between non-singleton literals are outside the claim",
               "names of side-effect-free builtins denote the builtins: literal_value sees one expression at a time, a module that rebinds len is outside lit_sound (recorded finding C02 constant-folding-through-rebound-builtin)"]

NAMES = ["x", "y"]
ENV = {"x": 3, "y": ()}
ENV_JSON = [["int", 3], ["tuple", []]]
LEAVES = [["int", 0], ["int", 1], ["int", -1], ["int", 7], ["bool", True], ["bool", False], ["none"], ["str", ""], ["str", "a"], ["tuple", []],
          ["tuple", [["int", 0]]], ["list", []], ["list", [["int", 1], ["int", 2]]], ["name", 0], ["name", 1]]
BINOPS = {"add": "+", "sub": "-", "mul": "*", "floordiv": "//", "mod": "%"}
CMPOPS = {"eq": "==", "ne": "!=", "lt": "<", "le": "<=", "gt": ">", "ge": ">="}
UNARY = ["len", "abs", "bool", "int", "sum", "any", "all", "tuple", "list"]
BUILTINS = UNARY + ["min", "max"]


def text(e):
    k = e[0]
    if k == "int":
        return f"({e[1]})" if e[1] < 0 else str(e[1])
    if k == "bool":
        return "True" if e[1] else "False"
    if k == "none":
        return "None"
    if k == "str":
        return repr(e[1])
    if k == "name":
        return NAMES[e[1]]
    if k == "tuple":
        return "(" + ", ".join(text(x) for x in e[1]) + ("," if len(e[1]) == 1 else "") + ")"
    if k == "list":
        return "[" + ", ".join(text(x) for x in e[1]) + "]"
    if k == "not":
        return f"(not {text(e[1])})"
    if k == "neg":
        return f"(-{text(e[1])})"
    if k == "bin":
        return f"({text(e[2])} {BINOPS[e[1]]} {text(e[3])})"
    if k == "cmp":
        return "(" + text(e[1]) + "".join(f" {CMPOPS[o]} {text(x)}" for o, x in zip(e[2], e[3])) + ")"
    if k in ("and", "or"):
        return "(" + f" {k} ".join(text(x) for x in e[1]) + ")"
    if k == "call":
        return f"{e[1]}({', '.join(text(x) for x in e[2])})"
    if k == "othercall":
        return f"{['f', 'print'][e[1]]}({', '.join(text(x) for x in e[2])})"
    raise ValueError(k)


def depth1():
    out = []
    for a in LEAVES:
        out.append(["not", a])
        out.append(["neg", a])
        for f in UNARY:
            out.append(["call", f, [a]])
        for b in LEAVES:
            for op in BINOPS:
                out.append(["bin", op, a, b])
            for op in CMPOPS:
                out.append(["cmp", a, [op], [b]])
            out.append(["and", [a, b]])
            out.append(["or", [a, b]])
            out.append(["call", "min", [a, b]])
            out.append(["call", "max", [a, b]])
    return out


def rand_expr(r, d=0):
    x = r.random()
    if d >= 3 or x < 0.3:
        return r.choice(LEAVES)
    if x < 0.4:
        return [r.choice(["not", "neg"]), rand_expr(r, d + 1)]
    if x < 0.6:
        return ["bin", r.choice(list(BINOPS)), rand_expr(r, d + 1), rand_expr(r, d + 1)]
    if x < 0.75:
        n = r.randint(1, 3)
        return ["cmp", rand_expr(r, d + 1), [r.choice(list(CMPOPS)) for _ in range(n)], [rand_expr(r, d + 1) for _ in range(n)]]
    if x < 0.87:
        return [r.choice(["and", "or"]), [rand_expr(r, d + 1) for _ in range(r.randint(2, 3))]]
    if x < 0.95:
        f = r.choice(BUILTINS)
        return ["call", f, [rand_expr(r, d + 1) for _ in range(2 if f in ("min", "max") else 1)]]
    if x < 0.98:
        return ["othercall", r.randrange(2), [rand_expr(r, d + 1)]]
    return [r.choice(["tuple", "list"]), [rand_expr(r, d + 1) for _ in range(r.randint(0, 2))]]


def real_lit(src):
    from pyrefact import core

    node = ast.parse(src, mode="eval").body
    try:
        return {"r": "known", "v": repr(core.literal_value(node))}
    except ValueError:
        return {"r": "unknown"}
    except Exception as ex:  # noqa: BLE001
        return {"r": "crash", "cls": type(ex).__name__}


def py_eval(src):
    def f(*a):
        return 1
    try:
        return {"r": "ok", "v": repr(eval(src, {"f": f, "print": f}, dict(ENV)))}
    except NameError:
        return {"r": "unk"}
    except Exception:  # noqa: BLE001
        return {"r": "err"}


def lit_suites(ctx):
    lit = Suite("lit")
    pe = Suite("pyeval")
    r = ctx.rng("lit")
    exprs = depth1() if ctx.thorough else r.sample(depth1(), 2500)
    exprs += [rand_expr(r) for _ in range(ctx.n(2500, 30000))]
    answers = ctx.driver.ask([{"suite": "lit", "e": e, "env": ENV_JSON} for e in exprs])
    for e, ans in zip(exprs, answers):
        src = text(e)
        if "lit" not in ans:
            lit.disagreements.append({"expr": src, "what": "driver refused", "model": ans})
            continue
        lit.cases += 1
        pe.cases += 1
        # ---- literal_value
        m = ans["lit"]
        real = real_lit(src)
        lit.count(real["r"])
        if real["r"] == "crash":
            lit.disagreements.append({"expr": src, "e": e, "real": real, "what": f"literal_value raised {real['cls']} (not ValueError)"})
        elif m["r"] != "oof" and m != real:
            lit.disagreements.append({"expr": src, "e": e, "model": m, "real": real, "what": "literal_value differs from the model"})
        if real["r"] == "known" and e[0] not in ("int", "bool", "none", "str"):
            lit.nt(src)
        # ---- reference semantics vs CPython (names bound)
        uses_call = "f(" in src or "print(" in src
        m2 = ans["pyeval"]
        if m2["r"] != "oof" and not uses_call:
            py = py_eval(src)
            pe.count(py["r"])
            if m2 != py:
                pe.disagreements.append({"expr": src, "e": e, "model": m2, "python": py, "what": "reference semantics differs from CPython eval"})
            if py["r"] == "ok":
                pe.nt(src)
    lit.samples.append({"suite": "lit", "expr": "(0 and x)", "literal_value": "0"})
    pe.samples.append({"suite": "pyeval", "expr": "((-1) // 7)", "value": "-1"})
    lit.note = ("all depth-1 expressions over a 15-leaf alphabet (thorough; a 2500 sample in quick) + random expressions to depth 3; "
                "core.literal_value vs the model: repr of the value / ValueError; any other exception is a disagreement; non-trivial = a compound expression with a known value")
    pe.note = "the same expressions evaluated by CPython eval with x = 3, y = () vs the model's reference semantics; non-trivial = evaluation succeeds"
    return [lit, pe]


SURFACE_FNS = ["abs", "all", "any", "ascii", "bin", "bool", "bytearray", "bytes", "callable", "chr", "complex", "dict", "divmod", "enumerate", "filter", "float",
               "format", "frozenset", "getattr", "hasattr", "hex", "int", "isinstance", "issubclass", "iter", "len", "list", "map", "max", "min", "next", "oct", "ord",
               "pow", "range", "repr", "reversed", "round", "set", "slice", "sorted", "str", "sum", "super", "tuple", "zip", "StopIteration", "KeyError"]
SURFACE_ARGS = ["()", "[]", "''", "0", "1", "-1", "'a'", "'a b'", "[1, 2]", "(1, 2)", "None", "2.5", "iter(())", "iter([1])", "zip()", "[0]", "255"]
SURFACE_RECEIVERS = ["' '", "'a,b'", "'a b c'", "'x'", "'a\\tb'", "(255)", "b'ab'", "(2.5)", "'{}'", "'{k}'"]
SURFACE_KW = ["sep=' '", "sep=','", "sep=''", "maxsplit=1", "tabsize=1", "encoding='utf-16-le'", "encoding='no-such-codec'", "length=2, byteorder='big'", "k=1", "keepends=True",
              "errors='ignore'", "signed=True"]


def surface_exprs():
    """calls of the whitelisted builtins and of methods of constants on small literal arguments, positional and keyword:
    the part of literal_value that evaluates by calling into Python"""
    out = []
    for f in SURFACE_FNS:
        out.append(f"{f}()")
        out += [f"{f}({a})" for a in SURFACE_ARGS]
        out += [f"{f}({a}, {b})" for a in SURFACE_ARGS for b in SURFACE_ARGS]
    for recv in SURFACE_RECEIVERS:
        try:
            val = eval(recv)
        except Exception:  # noqa: BLE001
            continue
        for m in sorted(x for x in dir(type(val)) if not x.startswith("_")):
            out.append(f"{recv}.{m}()")
            out += [f"{recv}.{m}({a})" for a in SURFACE_ARGS]
            out += [f"{recv}.{m}({k})" for k in SURFACE_KW]
            out += [f"{recv}.{m}({a}, {k})" for a in ("' '", "1", "'a'") for k in SURFACE_KW]
    wrap = ["not {}", "{} + 1", "{} and 1", "0 < {} < 2", "[{}]", "{} if 1 else 2", "-{}"]
    inner = ["next(iter(()))", "next(zip())", "next(reversed([]))", "next(filter(None, [0]))", "super()", "' '.split(sep=' ')", "'a'.split(sep='')", "int('x')", "max([])", "chr(-1)",
             "2.0 ** 10000", "hash([])", "'{}'.format()", "''.foo()", "(1).real()", "''.join(1)", "[][0]", "{}['a']", "().x"]
    out += inner + [w.format(i) for w in wrap for i in inner]
    return out


def eval_oracle(ctx):
    """on the real code only: whenever literal_value returns a value it equals eval's; constant conditions are folded right"""
    from pyrefact import core, fixes

    s = Suite("lit-eval-oracle", kind="oracle")
    r = ctx.rng("lit-oracle")
    extra = ["1 / 2", "2 ** 3", "1 < 2 < 3 < 4 == 4 < 4.5", "'a' * 2", "[1] * 2", "'ab'.upper()", "''.join(('1', '2'))", "len('abc') > 2", "1.5 + 1",
             "{1: 2}", "{1, 2}", "b'a'", "1 if 2 else 3", "not []", "[] or 0 or ''", "1 in (1, 2)", "None is None", "1 is not None", "3 >> 1", "1 | 2",
             "sorted([2, 1])", "sum([1, 2])", "any(iter([1, 2]))", "all([])", "tuple([1])", "str(1)", "min(1, 2, 3)", "max([1, 2])", "abs(-2.5)", "int('3')",
             "1 < 3 < 2", "0 <= 7 <= 5", "1 == 1 != 1", "list(zip([1], [2]))", "list(reversed([1, 2]))", "round(2.5)", "divmod(7, 2)", "pow(2, 3)",
             "'a' in 'abc'", "'abc' in 'a'", "'' in 'a'", "'a' not in 'abc'", "'abc' not in 'a'", "b'a' in b'abc'", "b'abc' in b'a'", "(1,) in ((1,), (2,))", "((1,), (2,)) in (1,)",
             "1 not in (1, 2)", "3 in (1, 2)", "'x' in ['x', 'y']", "['x'] in ['x', 'y']", "1 in (1, 2) in ((1, 2),)", "'a' in 'abc' in ('abc',)", "() in ((),)", "'b' in 'abc' == True",
             "float('nan') == float('nan')", "1/0", "1 % 0", "None < 1", "1 + 'a'", "-'a'", "print(1)", "input()", "open('x')", "hash('a')", "id(1)"]
    exprs = [text(rand_expr(r)) for _ in range(ctx.n(1500, 20000))] + extra
    surface = surface_exprs()
    s.hist["surface-expressions"] = len(surface)
    if not ctx.thorough:
        tail = surface[-160:]
        surface = r.sample(surface[:-160], 6000) + tail
    for src in exprs + surface:
        s.cases += 1
        real = real_lit(src)
        if real["r"] == "crash":
            s.disagreements.append({"expr": src, "what": f"literal_value({src!r}) raised {real['cls']}"})
            continue
        if real["r"] != "known":
            continue
        s.nt(src)
        py = py_eval(src)
        if " at 0x" in real["v"]:
            if py["r"] != "ok":
                s.disagreements.append({"expr": src, "what": f"literal_value({src!r}) = {real['v']} but Python evaluation gives {py['r']}"})
            continue
        if py["r"] != "ok":
            s.disagreements.append({"expr": src, "what": f"literal_value({src!r}) = {real['v']} but Python evaluation gives {py['r']}"})
        elif py["v"] != real["v"] and "nan" not in src:
            s.disagreements.append({"expr": src, "what": f"literal_value({src!r}) = {real['v']} but Python computes {py['v']}"})
    # consumers: a constant condition is folded to the branch Python takes
    for src in exprs[: ctx.n(300, 3000)] + extra + surface[-160:] + r.sample(surface, ctx.n(400, 4000)):
        prog = f"def g(x, y):\n    if {src}:\n        return 'T'\n    else:\n        return 'F'\n"
        try:
            out = fixes.remove_dead_ifs(prog)
        except Exception as ex:  # noqa: BLE001
            s.disagreements.append({"expr": src, "what": f"remove_dead_ifs raised {ex!r} on a condition {src!r}"})
            continue
        if out == prog:
            continue
        s.cases += 1
        s.nt("if:" + src)
        res = []
        for code in (prog, out):
            env = {"f": lambda *a: 1}
            try:
                exec(code, env)
                res.append(env["g"](3, ()))
            except Exception as ex:  # noqa: BLE001
                res.append("EXC " + type(ex).__name__)
        if res[0] != res[1]:
            s.disagreements.append({"expr": src, "out": out, "what": f"remove_dead_ifs folds 'if {src}' to the wrong branch: {res[0]} -> {res[1]}"})
    # consumer: remove_redundant_boolop_values on displays (a display with starred elements may be empty, its elements may raise)
    displays = ["[]", "()", "{}", "[0]", "(0,)", "[x]", "(x, y)", "[*y]", "(*y,)", "(*'', *b'')", "[*y, *y]", "{*()}", "[*y, 1]", "(*'a',)", "[1 / 0]", "(1 / 0,)", "[[]]", "{0: 0}", "{**{}}",
                "[*[]]", "''", "'a'", "0", "1", "None", "x", "y", "[x][0]", "(*y, *y) or 0"]
    shapes = ["print({d} and 1)", "print({d} or 2)", "print(1 and {d})", "print(0 or {d})", "print({d} and {e})", "print({d} or {e})", "if {d} and 'x':\n    print('reached')\nelse:\n    print('other')",
              "print(not ({d} and 1))", "print([v for v in (1, 2) if {d} and v])", "print(({d} and 1) or ({e} and 2))"]
    progs = []
    for d in displays:
        for sh in shapes:
            for e in (["[0]"] if "{e}" not in sh else displays[:12]):
                progs.append("x = 3\ny = ()\n" + sh.format(d=d, e=e) + "\n")
    for prog in progs:
        try:
            out = fixes.remove_redundant_boolop_values(prog)
        except Exception as ex:  # noqa: BLE001
            s.disagreements.append({"expr": prog, "what": f"remove_redundant_boolop_values raised {ex!r}"})
            continue
        if out == prog:
            continue
        s.cases += 1
        s.nt("boolop:" + prog)
        res = []
        for code in (prog, out):
            buf = io.StringIO()
            try:
                with contextlib.redirect_stdout(buf):
                    exec(code, {})
                res.append(("ok", buf.getvalue()))
            except Exception as ex:  # noqa: BLE001
                res.append(("EXC " + type(ex).__name__, buf.getvalue()))
        if res[0] != res[1]:
            s.disagreements.append({"expr": prog, "out": out, "what": f"remove_redundant_boolop_values changes behaviour: {res[0]} -> {res[1]}"})
    s.note = "random in-fragment expressions + 50 out-of-fragment ones (floats, methods, dict/set, shifts, chained comparisons, iterators, effectful builtins) + the call surface (47 whitelisted builtins x 0-2 small arguments, every public method of 10 constant receivers x positional / keyword arguments, raising expressions in 7 contexts): literal_value(e) == eval(e) whenever a value is returned, never a non-ValueError exception; and 'if e:' folded by remove_dead_ifs executes like the original"
    return s


TRUTHY = ["11", "'t2'", "[3]", "(4,)", "{5: 5}", "6.5", "True"]
FALSY = ["0", "''", "[]", "()", "{}", "None", "0.0"]


def boolop_suite(ctx):
    """remove_redundant_boolop_values on every truth-value mask up to length 6 (7 in the thorough tier), both operators: which operands are kept"""
    from pyrefact import fixes

    s = Suite("boolop")
    reqs, metas = [], []
    max_iter = 5  # processing.fix default (Generated/Consts.lean carries the value read from the running code)
    try:
        import inspect
        from pyrefact import processing
        max_iter = int(inspect.signature(processing.fix).parameters["max_iter"].default)
    except Exception:  # noqa: BLE001
        pass
    for n in range(2, ctx.n(6, 7) + 1):
        for mask in itertools.product("tfu", repeat=n):
            for is_and in (True, False):
                ops = [TRUTHY[i] if m == "t" else FALSY[i] if m == "f" else f"x{i}" for i, m in enumerate(mask)]
                src = "r = " + (" and " if is_and else " or ").join(ops) + "\n"
                reqs.append({"suite": "boolop", "and": is_and, "mask": list(mask), "iter": max_iter})
                metas.append((mask, is_and, ops, src))
    for (mask, is_and, ops, src), ans in zip(metas, ctx.driver.ask(reqs)):
        s.cases += 1
        try:
            out = fixes.remove_redundant_boolop_values(src)
            node = ast.parse(out).body[0].value
        except Exception as ex:  # noqa: BLE001
            s.disagreements.append({"src": src, "what": f"remove_redundant_boolop_values raised {ex!r}"})
            continue
        values = node.values if isinstance(node, ast.BoolOp) else [node]
        texts = [ast.unparse(ast.parse(o, mode="eval").body) for o in ops]
        try:
            real = [texts.index(ast.unparse(v)) for v in values]
        except ValueError:
            s.disagreements.append({"src": src, "out": out, "what": "the result contains an operand that is not one of the operands"})
            continue
        if len(real) < len(ops):
            s.nt(src)
        if real != ans.get("keep"):
            s.disagreements.append({"src": src, "out": out, "mask": "".join(mask), "model_keeps": ans.get("keep"), "real_keeps": real,
                                    "what": "remove_redundant_boolop_values keeps other operands than the model"})
    s.samples.append({"suite": "boolop", "src": "r = 11 and x1 and [] and x3", "kept": [1, 2]})
    s.note = ("every mask over {known truthy, known falsy, unknown} of length 2..6 x {and, or} (2 184 chains; distinct literals per position): the operands "
              "remove_redundant_boolop_values keeps vs keepAnd / keepOr; non-trivial = something is dropped")
    return s


def suites(ctx):
    common.import_pyrefact()
    return lit_suites(ctx) + [boolop_suite(ctx), eval_oracle(ctx)]


def search(ctx, breaks):
    common.import_pyrefact()
    found = eval_oracle(ctx).disagreements[:5]
    for b in breaks:
        for d in b.get("inputs", []):
            if "expr" in d and d.get("real", {}).get("r") == "known":
                py = py_eval(d["expr"])
                if py.get("v") != d["real"]["v"]:
                    found.append({"expr": d["expr"], "what": f"literal_value({d['expr']!r}) = {d['real']['v']} but Python gives {py}"})
    return found[:6]


def replay(ctx, inp):
    common.import_pyrefact()
    real = real_lit(inp["expr"])
    py = py_eval(inp["expr"])
    print(real, py)
    return real["r"] == "crash" or (real["r"] == "known" and (py["r"] != "ok" or py["v"] != real["v"]))
