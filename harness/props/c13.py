"""C13 - match objects and the re-like API are geometrically coherent.
Tie: suite `offsets` (core.get_charnos, Match.lineno / col_offset vs the Offsets model fed with the positions CPython
reports) on sources with multi-byte characters, CRLF / CR line ends, form feeds and Unicode separators, decorated and
multi-line nodes.  Oracle: span text == ast.get_source_segment, line/col == the node's, findall/search/match/fullmatch/CLI
coherence."""
from __future__ import annotations

import ast
import subprocess
import sys
import tempfile
from pathlib import Path

import common
import sweep
from common import Suite

TRUSTED = ["C13: CPython's ast positions delimit the complete text of a node (the oracle's definition)",
           "C13: which position counts as the first decorator (min over decorator_list) is computed by the harness as the code does"]
ASSUMPTIONS = ["columns reported by CPython are at character boundaries"]

SNIPPETS = [
    "x = 'é'; y = foo(1)\n", "α = 1\nβ = foo(α, 'ü')\n", "def f():\n    return foo('日本語', 2)  # コメント\n", "x = foo(1)\r\ny = foo(2)\r\n", "x = foo(1)\ry = foo(2)\r",
    "s = 'a\x0cb'\nt = foo(3)\n", "s = 'a\u2028b'\nt = foo(3)\n", "def a():\n    return 1\n\x0c\ndef b():\n    return foo(2)\n", "@dec\n@dec2(1)\ndef g():\n    return foo(1)\n",
    "@dec\nasync def h():\n    return foo(1)\n", "@dec\nclass K:\n    x = foo(1)\n", "x = (\n    foo(1)\n)\n", "if a:\n    y = foo(\n        1,\n        2,\n    )\n", "z = foo(1)",
    "def f(): pass\n#@", "x = foo( 1 )  \n", "print(f'{foo(1)} é {foo(2)}')\n", "y = [foo(i) for i in range(3)]\n", "w = foo(foo(1))(2)\n", "f(1).y = 3\ng(2)\n",
    "foo(1)\nfoo(2)\n", "class C:\n    def m(self):\n        return foo(self)\n", "lambda: foo(1)\n", "x = 'ß' + foo('ß') + 'ß'\n",
]
PATTERNS = ["async def {{name}}():\n    {{...*}}", "class {{name}}:\n    {{...*}}", "foo({{x}})", "{{f}}({{x}})", "{{x}} = {{y}}", "def {{name}}():\n    {{...*}}", "return {{x}}", "{{x}}", "foo({{...*}})"]


def nodes_with_pos(src):
    try:
        tree = ast.parse(src)
    except SyntaxError:
        return []
    return [n for n in ast.walk(tree) if hasattr(n, "lineno") and getattr(n, "end_lineno", None) is not None]


def offsets_suite(ctx):
    from pyrefact import core

    s = Suite("offsets")
    srcs = list(SNIPPETS) + [src for (_sha, src, _f) in sweep.pick(sweep.generated_corpus(), ctx, 15) + sweep.pick(sweep.example_corpus(), ctx, 40)]
    r = ctx.rng("offsets")
    # sprinkle non-ASCII identifiers / literals into corpus programs
    extra = []
    for src in srcs[len(SNIPPETS):][:20]:
        extra.append(src.replace("print(", "print('é→', ", 1).replace("x", "ξ") if r.random() < 0.7 else src.replace("\n", "\r\n"))
    srcs += extra
    reqs, metas = [], []
    for src in srcs:
        ns = nodes_with_pos(src)
        if not ns:
            continue
        ns = ns[:60]
        pos = []
        for n in ns:
            pos.append([n.lineno, n.col_offset])
            pos.append([n.end_lineno, n.end_col_offset])
        points = [r.randint(0, max(0, len(src) - 1)) for _ in range(8)]
        reqs.append({"suite": "offsets", "src": src, "pos": pos, "points": points})
        metas.append((src, ns, points))
    answers = ctx.driver.ask(reqs)
    for (src, ns, points), ans in zip(metas, answers):
        s.cases += 1
        if "chars" not in ans:
            s.disagreements.append({"src": src, "what": "driver refused", "model": ans})
            continue
        nonascii = not src.isascii()
        s.count("non-ascii" if nonascii else "ascii")
        for i, n in enumerate(ns):
            ms, me = ans["chars"][2 * i], ans["chars"][2 * i + 1]
            # the untrimmed span must be the exact source segment
            seg = ast.get_source_segment(src, n)
            if seg is not None and src[ms:me] != seg:
                s.disagreements.append({"src": src, "node": type(n).__name__, "model_span": [ms, me], "segment": seg,
                                        "what": "model span is not the node's source segment (model defect)"})
                break
            try:
                rng = core.get_charnos(n, src)
            except Exception as ex:  # noqa: BLE001
                s.disagreements.append({"src": src, "node": type(n).__name__, "what": f"get_charnos raised {ex!r}"})
                break
            # real = model span after blank trimming / decorator extension: compare on nodes without decorators and without outer blanks
            has_dec = bool(getattr(n, "decorator_list", None))
            if not has_dec and seg is not None and seg == seg.strip(" "):
                if (rng.start, rng.end) != (ms, me):
                    s.disagreements.append({"src": src, "node": type(n).__name__, "model": [ms, me], "real": [rng.start, rng.end],
                                            "what": "get_charnos differs from the model"})
                    break
            if has_dec and (src[rng.start:rng.start + 1] != "@" or not src[rng.start:rng.end].rstrip().endswith(seg.rstrip()[-10:])):
                s.disagreements.append({"src": src, "node": type(n).__name__, "real": [rng.start, rng.end],
                                        "what": "the span of a decorated definition does not run from its first '@' to the end of the definition"})
                break
        for p, (ml, mc) in zip(points, ans["linecol"]):
            m = core.Match(core.Range(p, p), src, (None,))
            if (m.lineno, m.col_offset) != (ml, mc):
                s.disagreements.append({"src": src, "point": p, "model": [ml, mc], "real": [m.lineno, m.col_offset], "what": "Match lineno/col_offset differ from the model"})
                break
        if nonascii or "\r" in src or "\x0c" in src:
            s.nt(src)
    s.samples.append({"suite": "offsets", "src": "x = 'é'; y = foo(1)\n", "node": "Call", "span_text": "foo(1)"})
    s.note = ("24 hand-written snippets (multi-byte text before the node, CRLF, CR, form feed, U+2028, decorators, multi-line, no final newline) + corpus programs, "
              "some with non-ASCII names injected or CRLF line ends; every positioned node: model span (from CPython's byte positions) == get_source_segment and == "
              "core.get_charnos (undecorated, untrimmed nodes); Match lineno/col for random offsets; non-trivial = non-ASCII or exotic line breaks")
    return s


CHARNOS_EXTRA = ["x = foo( 1 )  \n", "class A:\n    @dec\n    def m(self):\n        return  foo( 2 )\n", "if a:\n        y = 1\n", "v = [ 1,  2 ]\n", "@d1\n@ d2\ndef f(): pass\n", "  \n@x\nclass K: pass\n",
                 "def f():\n    pass\n#@", "@é.dec\nasync def h():  \n    return foo( 'ß' )\n", "x = (  foo(1)  )\r\n@d\r\ndef g(): pass\r\n", "s = f'{ x }  '\nt = foo(s) ;  u = 2\n"]


def charnos_suite(ctx):
    """core.get_charnos in full (trimming, decorator look-behind, keep_first_indent) vs Charnos.getCharnos"""
    from pyrefact import core

    s = Suite("charnos")
    r = ctx.rng("charnos")
    srcs = list(SNIPPETS) + CHARNOS_EXTRA + [src for (_sha, src, _f) in sweep.pick(sweep.generated_corpus(), ctx, 20) + sweep.pick(sweep.example_corpus(), ctx, 60)]
    extra = []
    for src in srcs[len(SNIPPETS) + len(CHARNOS_EXTRA):][:25]:
        extra.append(src.replace("print(", "print('é→', ", 1).replace("x", "ξ") if r.random() < 0.6 else src.replace("\n", "\r\n"))
    srcs += extra
    reqs, metas = [], []
    for src in srcs:
        try:
            tree = ast.parse(src)
        except SyntaxError:
            continue
        items = []
        for n in [n for n in ast.walk(tree) if hasattr(n, "lineno")][:120]:
            first = n
            if getattr(n, "decorator_list", None):
                first = min(n.decorator_list, key=lambda d: (d.lineno, d.col_offset))
            is_def = isinstance(n, (ast.ClassDef, ast.FunctionDef, ast.AsyncFunctionDef))
            end = [n.end_lineno, n.end_col_offset] if getattr(n, "end_lineno", None) is not None else [None, None]
            for keep in (False, True):
                items.append(([first.lineno, first.col_offset, end[0], end[1], is_def, keep], n, keep))
        if items:
            reqs.append({"suite": "charnos", "src": src, "nodes": [i[0] for i in items]})
            metas.append((src, items))
    answers = ctx.driver.ask(reqs)
    for (src, items), ans in zip(metas, answers):
        s.cases += 1
        if "ranges" not in ans:
            s.disagreements.append({"src": src, "what": "driver refused", "model": ans})
            continue
        for (req, n, keep), rng in zip(items, ans["ranges"]):
            try:
                real = core.get_charnos(n, src, keep_first_indent=keep)
            except Exception as ex:  # noqa: BLE001
                s.disagreements.append({"src": src, "node": type(n).__name__, "request": req, "what": f"get_charnos raised {ex!r}"})
                break
            seg = ast.get_source_segment(src, n) or ""
            if seg != seg.strip(" ") or getattr(n, "decorator_list", None) or keep:
                s.nt([src, req])
                s.count("trimmed / decorated / keep_first_indent")
            if [real.start, real.end] != list(rng):
                s.disagreements.append({"src": src, "node": type(n).__name__, "request": req, "model": list(rng), "real": [real.start, real.end],
                                        "what": "core.get_charnos differs from the model (Charnos.getCharnos)"})
                break
    s.samples.append({"suite": "charnos", "src": "@dec\ndef g():\n    return foo(1)\n", "request": [1, 1, 3, 17, True, False], "range": [0, 31]})
    s.note = ("34 hand-written snippets (decorators incl. '@ d2' and non-ASCII, blanks inside brackets and at line ends, CRLF / CR, form feed, f-string parts, a trailing '#@') + corpus programs, some with non-ASCII names "
              "or CRLF: for every positioned node x keep_first_indent in {False, True}, Charnos.getCharnos fed with CPython's (lineno, byte column) pairs vs core.get_charnos (start and end offset); "
              "non-trivial = the node text is trimmed, the node is decorated, or keep_first_indent is set")
    return s


def coherence_oracle(ctx):
    from pyrefact import core, pattern_matching as pm

    s = Suite("match-coherence", kind="oracle")
    srcs = list(SNIPPETS) + [src for (_sha, src, _f) in sweep.pick(sweep.generated_corpus(), ctx, 10) + sweep.pick(sweep.example_corpus(), ctx, 20)]
    for src in srcs:
        try:
            ast.parse(src)
        except SyntaxError:
            continue
        for pat in PATTERNS:
            s.cases += 1
            try:
                ms = list(pm.finditer(pat, src))
            except Exception as ex:  # noqa: BLE001
                s.disagreements.append({"pattern": pat, "src": src, "what": f"finditer raised {ex!r}"})
                continue
            if ms:
                s.nt([pat, src])
            bad = None
            for m in ms:
                node = m.groups[0]
                seg = ast.get_source_segment(src, node) if not isinstance(node, list) else None
                if not (0 <= m.start <= m.end <= len(src)):
                    bad = f"span {(m.start, m.end)} outside the source"
                elif m.string != src[m.start:m.end]:
                    bad = "match text is not the source slice of its span"
                elif seg is not None and not getattr(node, "decorator_list", None) and m.string.strip() != seg.strip():
                    bad = f"match text {m.string!r} is not the complete text of the node {seg!r}"
                elif getattr(node, "decorator_list", None) and not m.string.lstrip().startswith("@"):
                    bad = f"match text of a decorated definition does not start at its first decorator: {m.string[:30]!r}"
                elif seg is not None and not getattr(node, "decorator_list", None):
                    # line / column of the span start = the node's (columns in characters)
                    line_text = src.encode()  # byte column -> characters on that line
                    lines = src.split("\n")
                    if "\r" not in src and "\x0c" not in src:
                        want_col = len(lines[node.lineno - 1].encode()[: node.col_offset].decode(errors="ignore"))
                        lead = len(seg) - len(seg.lstrip(" "))
                        if (m.lineno, m.col_offset) != (node.lineno, want_col + lead):
                            bad = f"line/column {(m.lineno, m.col_offset)} is not the span start {(node.lineno, want_col)}"
                if bad:
                    break
            if not bad:
                try:
                    if pm.findall(pat, src) != [m.string for m in ms]:
                        bad = "findall is not the texts of finditer"
                    first = pm.search(pat, src)
                    if (first is None) != (not ms) or (first is not None and first.span != ms[0].span):
                        bad = "search is not the first finditer result"
                    body = ast.parse(src).body
                    if not body:  # a module of comments only: nothing can match at "the first statement"
                        if pm.match(pat, src) is not None or pm.fullmatch(pat, src) is not None:
                            bad = "match() / fullmatch() succeed on a module without statements"
                        raise StopIteration
                    first_stmt = core.get_charnos(body[0], src)
                    mt = pm.match(pat, src)
                    want_match = any(m.start == first_stmt.start for m in ms)
                    if (mt is not None) != want_match:
                        bad = f"match() is {'not ' if mt is None else ''}None but a match {'starts' if want_match else 'does not start'} at the first statement"
                    fm = pm.fullmatch(pat, src)
                    last_stmt = core.get_charnos(body[-1], src)
                    want_full = any(m.start == first_stmt.start and m.end == last_stmt.end for m in ms)
                    if (fm is not None) != want_full:
                        bad = "fullmatch() disagrees with 'some match spans the whole module body'"
                except StopIteration:
                    pass
                except Exception as ex:  # noqa: BLE001
                    bad = f"re-like API raised {ex!r}"
            if bad:
                s.disagreements.append({"pattern": pat, "src": src, "what": f"pattern {pat!r}: {bad}"})
    # the command-line finder prints the same locations
    tmp = Path(tempfile.mkdtemp(prefix="c13_"))
    try:
        for src in ["x = 'é'; y = foo(1)\nz = foo(2)\n", "@dec\nasync def h():\n    return foo(1)\n\n\nw = foo(3)\n"]:
            p = tmp / "m.py"
            p.write_text(src, encoding="utf-8")
            s.cases += 1
            out = subprocess.run([sys.executable, "-m", "pyrefact.pattern_matching", "find", "foo({{x}})", str(p)], capture_output=True, text=True, cwd=str(common.REPO), timeout=120)
            want = [(m.lineno, m.col_offset) for m in pm.finditer("foo({{x}})", src)]
            got = []
            import re as _re
            for line in out.stdout.splitlines():
                mm = _re.search(r":(\d+):(\d+)", line)
                if mm:
                    got.append((int(mm.group(1)), int(mm.group(2))))
            if out.returncode == 0 and got and got != want:
                s.disagreements.append({"src": src, "cli": got, "api": want, "what": "the command-line finder prints different locations than finditer"})
    finally:
        for f in tmp.iterdir():
            f.unlink()
        tmp.rmdir()
    s.note = "7 patterns x snippets/corpus programs: every match inside the source, text == slice == complete node text, line/col == span start, findall/search/match/fullmatch coherence, CLI finder locations"
    return s


def suites(ctx):
    common.import_pyrefact()
    return [offsets_suite(ctx), charnos_suite(ctx), coherence_oracle(ctx)]


def search(ctx, breaks):
    common.import_pyrefact()
    found = []
    for b in breaks:
        for d in b.get("inputs", []):
            # a span that is not the node's text is itself the failing input (judged against ast.get_source_segment / the '@')
            if "src" in d and ("decorated definition" in d.get("what", "") or "get_charnos differs" in d.get("what", "")):
                found.append({"src": d["src"], "node": d.get("node"), "real": d.get("real"), "what": d["what"] + f" (node {d.get('node')}, span {d.get('real')})"})
    return (found + coherence_oracle(ctx).disagreements)[:5]


def replay(ctx, inp):
    common.import_pyrefact()
    ds = [d for d in coherence_oracle(ctx).disagreements if d.get("src") == inp.get("src") and d.get("pattern") == inp.get("pattern")]
    print(ds[:1])
    return bool(ds)
