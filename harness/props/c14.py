"""C14 - pattern substitution rewrites exactly the matches and nothing else.
Proof: composition of the C10 / C20 theorems (Props/C14.lean).  Tie: suite `sub`: the rewrites `find_replace` yields for a
(pattern, replacement, source) are fed to the Lean scheduler + pure splice; the text must equal what the real
`pattern_matching.sub` returns (on inputs where `_do_rewrite` is a splice: single-line replacements, same-line matches), and
the count logic.  Oracle: AST-level reference substitution, untouched lines, count bound, ignore comments, self-substitution."""
from __future__ import annotations

import ast

import common
import sweep
from common import Suite

TRUSTED = ["C14: 'the syntax tree equals the source tree with those nodes replaced' needs Python's grammar; it is decided by the AST-level oracle only",
           "C14: find_replace's instantiation of the replacement template (format_template, dedent/indent) is taken from the real code in the tie"]
ASSUMPTIONS = ["subn's count bounds the number of yielded (not of applied) matches - modelled as the code does it"]

CASES = [
    ("foo({{x}})", "bar({{x}})"), ("foo({{x}})", "baz({{x}}, {{x}})"), ("foo({{x}})", "qux()"), ("{{f}}({{x}})", "apply_to({{f}}, {{x}})"), ("{{a}} + {{b}}", "add({{a}}, {{b}})"),
    ("{{x}} = {{y}}", "{{x}} = wrap({{y}})"), ("print({{...*}})", "log()"), ("{{a}}.append({{b}})", "{{a}}.add({{b}})"), ("nomatch_zzz({{x}})", "y({{x}})"),
    ("foo({{x}})", "foo({{x}})"), ("return {{x}}", "return check({{x}})"), ("{{a}} < {{b}}", "lt({{a}}, {{b}})"), ("scale({{x}})", "rescale({{x}}, 2)"),
]
SOURCES = [
    "a = foo(1)\nb = foo(2) + foo(3)\nc = other(4)\n", "x = foo(foo(1))\ny = foo(1)(2)\n", "first = adder(1)(2)\nsecond = adder(3)(4)\nprint(first, second)\n",
    "def f(q):\n    z = foo(q)  # pyrefact: ignore\n    w = foo(q + 1)\n    return foo(z) + w\n", "v = a + b + c\nw = (a + b) * (c + d)\n", "items = []\nitems.append(1)\nitems.append(foo(2))\n",
    "if foo(1):\n    k = foo(2)\nelse:\n    k = foo(\n        3\n    )\n", "print(1)\nprint()\nprint(1, 2, sep='')\n", "t = x.foo().foo()\nu = foo(x).y\n",
    "frozen = scale(1000)  # pyrefact : ignore\nr\nlive = scale(3)\r\n".replace("r\n", ""), "m = foo(1) if foo(2) < foo(3) else 0\n", "class K:\n    def m(self):\n        return foo(self.v)\n",
]


def yields_of(pattern, repl, source, count):
    """the rewrites subn hands to the scheduler"""
    from pyrefact import processing

    out = []
    n = 0
    lim = count if count > 0 else float("inf")
    for item in processing.find_replace(source, pattern, repl):
        if n >= lim:
            break
        out.append(item)
        n += 1
    return out


def sub_suite(ctx):
    from pyrefact import core, pattern_matching as pm

    s = Suite("sub")
    r = ctx.rng("sub")
    srcs = SOURCES + [src for (_sha, src, _f) in sweep.pick(sweep.generated_corpus(), ctx, 12)]
    cases = []
    for pat, repl in CASES:
        for src in srcs:
            for count in (0, 1, 2):
                if ctx.thorough or r.random() < 0.4:
                    cases.append((pat, repl, src, count))
    reqs, metas = [], []
    for (pat, repl, src, count) in cases:
        try:
            ys = yields_of(pat, repl, src, count)
        except Exception:  # noqa: BLE001
            continue
        groups = [[[y[0].start, y[0].end, y[1], None] for y in ys]]
        reqs.append({"suite": "sched", "src": src, "groups": groups})
        metas.append((pat, repl, src, count, ys))
    answers = ctx.driver.ask(reqs)
    for (pat, repl, src, count, ys), ans in zip(metas, answers):
        s.cases += 1
        try:
            real, n = pm.subn(pat, repl, src, count=count)
        except Exception as ex:  # noqa: BLE001
            s.disagreements.append({"pattern": pat, "repl": repl, "src": src, "count": count, "what": f"subn raised {ex!r}"})
            continue
        if n != len(ys):
            s.disagreements.append({"pattern": pat, "repl": repl, "src": src, "count": count, "model": len(ys), "real": n, "what": "reported number of replacements differs"})
            continue
        if count and n > count:
            s.disagreements.append({"pattern": pat, "repl": repl, "src": src, "count": count, "real": n, "what": "count does not bound the replacements"})
        text = ans.get("text")
        expected = text if core.is_valid_python(text) else src
        # _do_rewrite is a pure splice when replacements are single-line and nothing is whitespace-only
        splice_ok = all("\n" not in y[1] and y[1].strip() for y in ys)
        s.count("matches=%d" % min(len(ys), 5))
        if splice_ok and ast_dump(real) != ast_dump(expected):
            s.disagreements.append({"pattern": pat, "repl": repl, "src": src, "count": count, "model": expected, "real": real,
                                    "what": "sub result differs from scheduling + splicing the yielded matches"})
        if len(ans.get("sched", [])) >= 1 and len(ans["sched"]) < len(ys):
            s.nt([pat, repl, src, count])
        elif len(ys) >= 2:
            s.nt([pat, src, count])
    s.samples.append({"suite": "sub", "pattern": "foo({{x}})", "repl": "bar({{x}})", "src": SOURCES[1], "result": "x = bar(foo(1))\ny = bar(1)(2)\n"})
    s.note = ("13 (pattern, replacement) pairs x 12 hand-written sources (nested, adjacent, chained calls, ignore comments, multi-line, CRLF) + corpus programs x count in {0,1,2}: "
              "the real match stream scheduled and spliced by the Lean model vs pattern_matching.subn (tree of the result, reported count); non-trivial = several matches / some dropped")
    return s


def ast_dump(text):
    try:
        return ast.dump(ast.parse(text))
    except SyntaxError:
        return "INVALID:" + text


SEPARATOR_SOURCES = [
    "a = scale(1)\n\x0c\nb = scale(2)  # pyrefact: ignore\nc = scale(3)\n", "s = 'x\u2028y'\nb = scale(2)  # pyrefact: ignore\nc = scale(3)\n",
    "t = 'p\x1cq\x1dr'\nu = 'v\x85w'\nb = scale(2)  # pyrefact: ignore\nc = scale(3)\nd = scale(4)\n", "# page\x0c break\nb = foo(2)  # pyrefact: ignore\nc = foo(3)\n",
    "x = '\x0b'\ny = '\u2029'\nb = foo(foo(2))  # pyrefact: ignore\nc = foo(3) + foo(4)\n",
]
# (pattern, replacement, source, the text whose tree the result must have): templates that only change the nesting
RENEST = [
    ("for {{i}} in {{it}}:\n    {{a}}\n{{b}}", "for {{i}} in {{it}}:\n    {{a}}\n    {{b}}", "out = []\nfor i in range(3):\n    out.append(i)\nout.append('tick')\nprint(out)\n",
     "out = []\nfor i in range(3):\n    out.append(i)\n    out.append('tick')\nprint(out)\n"),
    ("for {{i}} in {{it}}:\n    {{a}}\n    {{b}}", "for {{i}} in {{it}}:\n    {{a}}\n{{b}}", "out = []\nfor i in range(3):\n    out.append(i)\n    out.append('tick')\nprint(out)\n",
     "out = []\nfor i in range(3):\n    out.append(i)\nout.append('tick')\nprint(out)\n"),
    ("for {{i}} in {{it}}:\n    {{a}}\n{{b}}", "for {{i}} in {{it}}:\n    {{a}}\n    {{b}}", "def f(out):\n    for i in range(3):\n        out.append(i)\n    out.append('tick')\n    return out\n",
     "def f(out):\n    for i in range(3):\n        out.append(i)\n        out.append('tick')\n    return out\n"),
    ("if {{c}}:\n    {{a}}\n{{b}}", "if {{c}}:\n    {{a}}\n    {{b}}", "if flag:\n    x = 1\ny = 2\n", "if flag:\n    x = 1\n    y = 2\n"),
    ("{{a}}\n{{b}}", "{{b}}\n{{a}}", "x = 1\ny = 2\n", "y = 2\nx = 1\n"),
]


def oracle_suite(ctx):
    from pyrefact import core, pattern_matching as pm

    s = Suite("sub-oracle", kind="oracle")
    for (pat, repl, src, want) in RENEST:
        s.cases += 1
        try:
            out, n = pm.subn(pat, repl, src)
        except Exception as ex:  # noqa: BLE001
            s.disagreements.append({"pattern": pat, "repl": repl, "src": src, "what": f"subn raised {ex!r}"})
            continue
        s.nt([pat, src])
        if ast_dump(out) != ast_dump(want):
            s.disagreements.append({"pattern": pat, "repl": repl, "src": src, "out": out, "what": f"sub({pat!r}, {repl!r}) reported {n} replacement(s) but the result is not the source with the match replaced"})
    srcs = SOURCES + SEPARATOR_SOURCES + [src for (_sha, src, _f) in sweep.pick(sweep.generated_corpus(), ctx, 8) + sweep.pick(sweep.example_corpus(), ctx, 10)]
    long_src = "\n".join([f"v{i} = scale({i})" for i in range(40)] + ["frozen = scale(1000)  # pyrefact: ignore", "tail = scale(7)"]) + "\n"
    srcs += [long_src, long_src.replace("\n", "\r\n")]
    for src in srcs:
        try:
            ast.parse(src)
        except SyntaxError:
            continue
        for pat, repl in CASES:
            s.cases += 1
            try:
                out, n = pm.subn(pat, repl, src)
                matches = list(pm.finditer(pat, src))
            except Exception as ex:  # noqa: BLE001
                s.disagreements.append({"pattern": pat, "repl": repl, "src": src, "what": f"subn/finditer raised {ex!r}"})
                continue
            bad = None
            if not matches and out != src:
                bad = "the pattern does not occur but the source changed"
            elif not core.is_valid_python(out):
                bad = "the result does not parse"
            elif pat == repl and ast_dump(out) != ast_dump(src):
                bad = "substituting a pattern by itself changed the tree"
            else:
                # lines not touched by any match are unchanged; lines with an ignore comment are verbatim
                touched = set()
                for m in matches:
                    l0 = src.count("\n", 0, m.start)
                    l1 = src.count("\n", 0, max(m.start, m.end - 1))
                    touched.update(range(l0, l1 + 1))
                src_lines = src.split("\n")
                out_lines = out.split("\n")
                import re as _re
                for i, line in enumerate(src_lines):
                    if _re.search(r"#\s*pyrefact\s*:\s*(skip_file|ignore)", line) and line not in out_lines:
                        bad = f"line {i + 1} carries an ignore comment but was rewritten: {line!r}"
                        break
                if bad is None and len(src_lines) == len(out_lines):
                    for i, (a, b) in enumerate(zip(src_lines, out_lines)):
                        if a != b and i not in touched:
                            bad = f"line {i + 1} is not touched by any match but changed: {a!r} -> {b!r}"
                            break
                # every replaced occurrence is an instantiated template: for the call-renaming pairs, count the new calls
                if bad is None and matches and pat == "scale({{x}})":
                    applied = out.count("rescale(")
                    if applied > len(matches) or (applied == 0 and out != src):
                        bad = "number of instantiated replacements is not the number of applied matches"
                # AST reference for non-nested matches of the renaming kind: tree of out == tree of src with the name replaced
                if bad is None and pat == "scale({{x}})" and "scale(scale" not in src.replace(" ", ""):
                    ref = _re.sub(r"(?m)^(?!.*pyrefact\s*:)(.*)\bscale\(([^()]*)\)", r"\1rescale(\2, 2)", src)
                    if ast_dump(out) != ast_dump(ref):
                        bad = "the tree of the result is not the source tree with the matched calls replaced"
            if matches:
                s.nt([pat, src])
            if bad:
                s.disagreements.append({"pattern": pat, "repl": repl, "src": src, "out": out, "what": f"sub({pat!r}, {repl!r}): {bad}"})
    s.note = "13 (pattern, replacement) pairs x sources (incl. a 42-line module with an ignore comment at line 41, LF and CRLF): no-match identity, validity, self-substitution, untouched lines, ignore lines, AST reference for call renaming"
    return s


# ---------------------------------------------------------------------------- AST-level reference substitution (expression patterns)

REF_CASES = [
    ("({{v}} for {{v}} in {{it}})", "{{it}}"), ("({{v}} for {{v}} in {{it}})", "list({{it}})"), ("[{{v}} for {{v}} in {{it}}]", "list({{it}})"),
    ("({{e}} for {{v}} in {{it}})", "map(fn, {{it}})"), ("foo({{x}})", "bar({{x}})"), ("{{a}} + {{b}}", "add({{a}}, {{b}})"), ("{{f}}({{x}})", "apply_to({{f}}, {{x}})"),
    ("{{a}} < {{b}}", "lt({{a}}, {{b}})"), ("{{a}} if {{c}} else {{b}}", "pick({{c}}, {{a}}, {{b}})"), ("not {{x}}", "neg({{x}})"), ("{{a}}[{{i}}]", "get({{a}}, {{i}})"),
    ("-{{x}}", "neg({{x}})"), ("lambda {{v}}: {{e}}", "fn"), ("{{a}} and {{b}}", "both({{a}}, {{b}})"), ("{{k}}: {{v}}", "{{k}}: {{v}}"),
]
# callee shapes in front of a sole generator argument: plain names, soft keywords used as names, attributes, subscripts, calls, parenthesised
CALLEES = ["sum", "sorted", "type", "match", "case", "_", "print", "re.match", "self.type", "obj.case", "fs[0]", "get()", "(pick)", "tuple", "not_", "lambda_", "str.join"]


def ref_sources():
    out = []
    for c in CALLEES:
        out.append(f"kind = {c}(x for x in xs)\n")
        out.append(f"def g(xs):\n    return {c}(x for x in xs)\n")
        out.append(f"r = {c}((x for x in xs))\n")
        out.append(f"r = {c}(x for x in xs)(1)\n")
    out += ["g = (x for x in xs)\n", "def h(xs):\n    return (x for x in xs)\n", "def k(xs):\n    yield (x for x in xs)\n", "print(1, (x for x in xs))\n", "t = (x for x in xs), 2\n",
            "if any(x for x in xs): pass\n", "assert all(x for x in xs), (x for x in xs)\n", "d = {1: (x for x in xs)}\n", "z = f(\n    x for x in xs\n)\n", "z = f(x for x in xs\n      )\n",
            "w = [x for x in xs] + list(x for x in ys)\n", "y = await_(x for x in xs)\n", "for q in (x for x in xs):\n    pass\n", "with open_(x for x in xs) as fh:\n    pass\n",
            "r = foo(1) + foo(2) * a[0]\n", "if not a < b:\n    z = -foo(3)\n", "v = (a + b) * c - (d + e)\n", "w = a + b if c else d[0]\n", "k = {'a': foo(1), 'b': [foo(2), foo(3)]}\n",
            "m = lambda q: q + 1\nn = sorted(xs, key=lambda t: t[0])\n", "ok = p and q or not r\n", "u = x[1][2]\nv2 = -x[0] < y[0]\n", "class A:\n    def m(self):\n        return self.d[self.k] + foo(self.v)\n",
            "val = foo(1) if foo(2) < foo(3) else -4\n", "a = b = foo(c + d)\n", "e = (yield_) + (foo(1))\n", "s = [foo(i) for i in r if i < 3]\n"]
    return list(dict.fromkeys(out))


def ast_reference(src, ys):
    """the source tree with the nodes at the yielded ranges replaced by the (parsed) instantiated replacement; None when a range is not an expression node"""
    from pyrefact import core

    tree = ast.parse(src)
    by_range = {}
    for node in ast.walk(tree):
        if isinstance(node, ast.expr) and hasattr(node, "end_lineno"):
            rng = core.get_charnos(node, src)
            by_range.setdefault((rng.start, rng.end), node)
    targets = {}
    for (rng, new) in ys:
        node = by_range.get((rng.start, rng.end))
        if node is None:
            return None
        try:
            targets[id(node)] = ast.parse(new.strip(), mode="eval").body
        except SyntaxError:
            return None

    class R(ast.NodeTransformer):
        def visit(self, node):
            if id(node) in targets:
                return targets[id(node)]
            return self.generic_visit(node)

    return ast.dump(R().visit(tree))


def reference_suite(ctx):
    from pyrefact import pattern_matching as pm

    s = Suite("sub-ast-reference", kind="oracle")
    for src in ref_sources():
        try:
            ast.parse(src)
        except SyntaxError:
            continue
        for pat, repl in REF_CASES:
            try:
                ys = yields_of(pat, repl, src, 0)
            except Exception:  # noqa: BLE001
                continue
            if not ys:
                continue
            s.cases += 1
            spans = sorted((y[0].start, y[0].end) for y in ys)
            if any(a[1] > b[0] for a, b in zip(spans, spans[1:])) or any(not isinstance(y[1], str) for y in ys):
                s.count("nested or overlapping matches (left to the scheduler correspondence)")
                continue
            want = ast_reference(src, ys)
            if want is None:
                s.count("no expression node at the range")
                continue
            try:
                out = pm.sub(pat, repl, src)
            except Exception as ex:  # noqa: BLE001
                s.disagreements.append({"pattern": pat, "repl": repl, "src": src, "what": f"sub raised {ex!r}"})
                continue
            s.nt([pat, repl, src])
            s.count("compared")
            if ast_dump(out) != want:
                s.disagreements.append({"pattern": pat, "repl": repl, "src": src, "out": out, "reference": True,
                                        "what": f"sub({pat!r}, {repl!r}): the tree of the result is not the source tree with the matched nodes replaced"})
    s.note = ("15 expression patterns (generators and comprehensions, calls, operators, subscripts, conditionals, lambdas, dict items) x sources that put the match in every syntactic position - a sole generator argument after "
              "17 callee shapes (names, soft keywords used as names, attributes, subscripts, calls, parenthesised), returns, yields, tuples, multi-line calls, nested containers: for non-overlapping matches the tree of sub(...) "
              "must equal the source tree with the node at each matched range replaced by the parsed replacement (reference built from the ast, no text splicing)")
    return s


def suites(ctx):
    common.import_pyrefact()
    return [sub_suite(ctx), oracle_suite(ctx), reference_suite(ctx)]


def search(ctx, breaks):
    common.import_pyrefact()
    found = oracle_suite(ctx).disagreements[:4]
    for b in breaks:
        for d in b.get("inputs", []):
            if d.get("what", "").startswith("sub result differs") and "src" in d:
                # a tree that is neither the source nor the source with scheduled matches replaced
                found.append({"pattern": d["pattern"], "repl": d["repl"], "src": d["src"], "out": d["real"],
                              "what": f"sub({d['pattern']!r}, {d['repl']!r}) returns a tree that is not the source with the applied non-overlapping matches replaced: {d['real']!r}"})
    return found[:5]


def replay(ctx, inp):
    common.import_pyrefact()
    from pyrefact import pattern_matching as pm
    out = pm.sub(inp["pattern"], inp["repl"], inp["src"])
    print(repr(out))
    return out == inp.get("out")
