"""C02 - every individual rewrite rule preserves program behaviour.
Proved for the rules whose decision cores are modelled (theorems of C15/C16/C17 listed in Props/C02.lean); every rule the
pipeline invokes is applied in isolation to the fixed corpus by the rule sweep (support, reported separately)."""
import common
import oracles
import sweep

TRUSTED = ["C02: rules without a Lean model (comprehension, collection, numpy/pandas, class, import, naming rules) are examined only by the execution sweep"]
ASSUMPTIONS = ["closed deterministic programs; CPython exec() as semantics"]


def suites(ctx):
    common.import_pyrefact()
    return [sweep.rules_suite(ctx, quick_n=70)]


def match_known(d, known):
    return sweep.match_known_sha(d, known)


def replay_witness(ctx, kf):
    common.import_pyrefact()
    w = kf["witness"]
    if "src" not in w or "rule" not in w:
        return None
    res = sweep.task_rules((w["src"], [w["rule"]], False))
    b = res["before"]
    return any(st == "ok" and after is not None and (after[0], after[1]) != (b[0], b[1]) for (_r, st, _n, after) in res["rules"])


def replay(ctx, inp):
    common.import_pyrefact()
    res = sweep.task_rules((inp["src"], [inp["rule"]], inp.get("family") == "repo-example"))
    b = res["before"]
    bad = any(st == "ok" and after is not None and (after[0], after[1], after[2]) != (b[0], b[1], b[2]) for (_r, st, _n, after) in res["rules"])
    print(res["rules"][:1])
    return bad
