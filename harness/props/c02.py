"""C02 - every individual rewrite rule preserves program behaviour.
Proved for the rules whose decision cores are modelled (theorems of C15/C16/C17 listed in Props/C02.lean); every rule the
pipeline invokes is applied in isolation to the fixed corpus by the rule sweep (support, reported separately)."""
import common
from common import Suite
import flowrules
import oracles
import sweep

TRUSTED = ["C02: the control-flow rules are validated rewrite by rewrite on labelled skeleton programs (suite flow-validate; reader / renderer of the skeleton language in harness/flowrules.py); "
           "expressions, assignments and return values are outside the skeleton",
           "C02: rules without a Lean model (comprehension, collection, numpy/pandas, class, import, naming rules) are examined only by the execution sweep"]
ASSUMPTIONS = ["closed deterministic programs; CPython exec() as semantics"]


HOIST = "hoist-before-effectful-test"
ORDER = "same-point-insertions-in-text-order"


def hoist(sts):
    """move a statement that starts both branches of an if in front of the if, everywhere, repeatedly (what the rule does,
    applied to a skeleton in normal form, where the continuation of every if has been sunk into its branches)"""
    out = []
    for st in sts:
        if st[0] == "if":
            b, o = hoist(st[2]), hoist(st[3])
            while b and o and b[0] == o[0]:
                out.append(b[0])
                b, o = b[1:], o[1:]
            if b or o:  # an if whose branches are both empty only evaluates its test
                out.append(["if", st[1], b, o])
        elif st[0] in ("while", "for"):
            out.append([st[0], st[1], hoist(st[2]), hoist(st[3]) if len(st) > 3 else []])
        elif st[0] == "with":
            out.append(["with", hoist(st[1])])
        elif st[0] == "try":
            out.append(["try", hoist(st[1]), st[2], hoist(st[3]), hoist(st[4])])
        else:
            out.append(st)
    return out


def adjacent_swaps(sts):
    """all skeletons obtained by exchanging two neighbouring statements somewhere"""
    for i in range(len(sts) - 1):
        yield sts[:i] + [sts[i + 1], sts[i]] + sts[i + 2:]
    for i, st in enumerate(sts):
        for j, part in enumerate(st):
            if isinstance(part, list) and (not part or isinstance(part[0], list)):
                for v in adjacent_swaps(part):
                    yield sts[:i] + [st[:j] + [v] + st[j + 1:]] + sts[i + 1:]


def equal_modulo_hoist(ctx, pairs):
    """for each (a, b): do the normal forms coincide once common leading statements are hoisted out of every if?
    (two rounds through the proved normaliser: normalise, hoist in Python, normalise and compare again)"""
    if not pairs:
        return []
    first = ctx.driver.ask([{"suite": "validate", "a": a, "b": b} for (a, b) in pairs])
    second = ctx.driver.ask([{"suite": "validate", "a": hoist(x["na"]), "b": hoist(x["nb"])} for x in first])
    return [bool(x.get("ok")) or bool(y.get("ok")) for x, y in zip(first, second)]


def flow_suite(ctx):
    """the validator suite; a rewrite that is not validated is compared again modulo the two recorded defects of
    breakout_common_code_in_ifs: (1) a common leading statement is moved in front of the test, (2) two statements inserted
    at one point land in the order of their text (= one exchange of neighbouring statements in the output)"""
    s = flowrules.validate_suite(ctx)
    allk = [k for k in common.load_known("C02") if k["kind"] == "finding"]
    known = {k.get("id"): k for k in allk}
    cand = [d for d in s.disagreements if "src" in d and HOIST in known and d.get("rule") == known[HOIST]["witness"]["rule"]]
    skel = {}
    for d in cand:
        try:
            skel[id(d)] = (flowrules.skeleton_of_source(d["src"]), flowrules.skeleton_of_source(d["out"]))
        except Exception:  # noqa: BLE001
            pass
    cand = [d for d in cand if id(d) in skel]
    res = equal_modulo_hoist(ctx, [skel[id(d)] for d in cand])
    hoisted = {id(d) for d, ok in zip(cand, res) if ok}
    ordered = set()
    if ORDER in known:
        for d in cand:
            if id(d) in hoisted:
                continue
            before, after = skel[id(d)]
            variants = list(adjacent_swaps(after))[:300]
            if any(equal_modulo_hoist(ctx, [(before, v) for v in variants])):
                ordered.add(id(d))
    s.hist["known-finding:" + HOIST] = len(hoisted)
    s.hist["known-finding:" + ORDER] = len(ordered)
    s.disagreements = [d for d in s.disagreements if id(d) not in hoisted and id(d) not in ordered]
    return s


def dupkeys_suite(ctx):
    """remove_duplicate_dict_keys / remove_duplicate_set_elts on every key sequence over 3 constants up to length 5 (6 thorough): which pairs /
    elements are kept, and the order in which Python and the rule's output iterate"""
    import ast
    import itertools

    from pyrefact import fixes

    s = Suite("dupkeys")
    consts = ["'k'", "'j'", "7"]
    reqs, metas = [], []
    for n in range(1, ctx.n(5, 6) + 1):
        for keys in itertools.product(range(3), repeat=n):
            reqs.append({"suite": "dupkeys", "keys": list(keys)})
            metas.append(keys)
    for keys, ans in zip(metas, ctx.driver.ask(reqs)):
        s.cases += 1
        dsrc = "d = {" + ", ".join(f"{consts[k]}: {100 + i}" for i, k in enumerate(keys)) + "}\n"
        ssrc = "s = {" + ", ".join(f"{consts[k]}" for k in keys) + "}\n"
        try:
            dout = ast.parse(fixes.remove_duplicate_dict_keys(dsrc)).body[0].value
            sout = ast.parse(fixes.remove_duplicate_set_elts(ssrc)).body[0].value
        except Exception as ex:  # noqa: BLE001
            s.disagreements.append({"src": dsrc, "what": f"the duplicate rules raised {ex!r}"})
            continue
        real_d = [v.value - 100 for v in dout.values]
        real_s = [ast.unparse(e) for e in sout.elts]
        want_s = [ast.unparse(ast.parse(consts[keys[i]], mode="eval").body) for i in ans["set_first_index"]]
        if len(set(keys)) < len(keys):
            s.nt(list(keys))
        if real_d != ans["dict_keeps"]:
            s.disagreements.append({"src": dsrc, "model_keeps": ans["dict_keeps"], "real_keeps": real_d, "what": "remove_duplicate_dict_keys keeps other pairs than the model"})
        if real_s != want_s:
            s.disagreements.append({"src": ssrc, "model_keeps": want_s, "real_keeps": real_s, "what": "remove_duplicate_set_elts keeps other elements than the model"})
        # the semantics of the model against CPython: iteration order of the display
        py_order = [consts.index(repr(k)) if repr(k) in consts else consts.index(str(k)) for k in eval(dsrc[4:])]
        if py_order != ans["dict_order_python"]:
            s.disagreements.append({"src": dsrc, "model": ans["dict_order_python"], "python": py_order, "what": "the dict-display semantics of the model differs from CPython"})
    s.samples.append({"suite": "dupkeys", "src": "d = {'k': 100, 'j': 101, 'k': 102}", "rule_keeps": [1, 2], "python_order": ["k", "j"], "rule_order": ["j", "k"]})
    s.note = "every key sequence over 3 constants of length 1..5 (363; 1092 thorough): pairs kept by remove_duplicate_dict_keys, elements kept by remove_duplicate_set_elts, and the iteration order CPython gives the display, vs the model; non-trivial = a duplicate occurs"
    return s


def suites(ctx):
    common.import_pyrefact()
    return [flow_suite(ctx), dupkeys_suite(ctx), sweep.rules_suite(ctx, quick_n=70), sweep.pipeline_steps_suite(ctx)]


def match_known(d, known):
    if "witness" in d and "rule" in d and "sha" not in d:  # a concrete valuation found for a rewrite that did not validate:
        return None                                         # the recorded defects were already taken out by flow_suite
    return sweep.match_known_sha(d, known)


def search(ctx, breaks):
    common.import_pyrefact()
    found = []
    for b in breaks:
        found += flowrules.search(b.get("inputs", []))
    return found[:6]


def replay_witness(ctx, kf):
    common.import_pyrefact()
    w = kf["witness"]
    if "src" not in w or "rule" not in w:
        return None
    res = sweep.task_rules((w["src"], [w["rule"]], False))
    b = res["before"]
    return any(st == "ok" and after is not None and (after[0], after[1]) != (b[0], b[1]) for (_r, st, _n, after) in res["rules"])


def replay(ctx, inp):
    common.import_pyrefact()
    if "witness" in inp and "out" in inp:
        fn = oracles.resolve_rule(inp["rule"])
        out = fn(inp["src"])
        w = flowrules.differs(inp["src"], out)
        print(out, w)
        return bool(w)
    res = sweep.task_rules((inp["src"], [inp["rule"]], inp.get("family") == "repo-example"))
    b = res["before"]
    bad = any(st == "ok" and after is not None and (after[0], after[1], after[2]) != (b[0], b[1], b[2]) for (_r, st, _n, after) in res["rules"])
    print(res["rules"][:1])
    return bad
