"""C02 - every individual rewrite rule preserves program behaviour.
Proved for the rules whose decision cores are modelled (theorems of C15/C16/C17 listed in Props/C02.lean); every rule the
pipeline invokes is applied in isolation to the fixed corpus by the rule sweep (support, reported separately)."""
import common
import flowrules
import oracles
import sweep

TRUSTED = ["C02: the control-flow rules are validated rewrite by rewrite on labelled skeleton programs (suite flow-validate; reader / renderer of the skeleton language in harness/flowrules.py); "
           "expressions, assignments and return values are outside the skeleton",
           "C02: rules without a Lean model (comprehension, collection, numpy/pandas, class, import, naming rules) are examined only by the execution sweep"]
ASSUMPTIONS = ["closed deterministic programs; CPython exec() as semantics"]


HOIST = "hoist-before-effectful-test"


def only_test_evaluation_differs(src, out):
    """under every valuation: same outcome and same sequence of executed statements (only when / whether tests run differs)"""
    try:
        ra, rb = flowrules.run_all(src), flowrules.run_all(out)
    except SyntaxError:
        return False
    for a, b in zip(ra, rb):
        if a[0] == "fuel" and b[0] == "fuel":
            continue
        if a[0] != b[0] or [e for e in a[1] if e[0] == "s"] != [e for e in b[1] if e[0] == "s"]:
            return False
    return True


def flow_suite(ctx):
    """the validator suite; a rewrite that is not validated is executed at once: the recorded finding (common leading code
    hoisted in front of a test, so that the test runs later or not at all) is recognised by what differs"""
    s = flowrules.validate_suite(ctx)
    known = [k for k in common.load_known("C02") if k["kind"] == "finding" and k.get("id") == HOIST]
    keep, hits = [], 0
    for d in s.disagreements:
        if known and d.get("rule") == known[0]["witness"]["rule"] and "src" in d and flowrules.differs(d["src"], d["out"]) and only_test_evaluation_differs(d["src"], d["out"]):
            hits += 1
        else:
            keep.append(d)
    s.disagreements = keep
    s.hist["known-finding:" + HOIST] = hits
    return s


def suites(ctx):
    common.import_pyrefact()
    return [flow_suite(ctx), sweep.rules_suite(ctx, quick_n=70)]


def match_known(d, known):
    if "witness" in d and "rule" in d and "sha" not in d:  # a concrete valuation found for a rewrite that did not validate
        for k in known:
            if k["kind"] == "finding" and k.get("id") == HOIST and k["witness"]["rule"] == d["rule"] and only_test_evaluation_differs(d["src"], d["out"]):
                return k
        return None
    return sweep.match_known_sha(d, known)


def search(ctx, breaks):
    common.import_pyrefact()
    found = []
    for b in breaks:
        found += flowrules.search(b.get("inputs", []))
    return found[:6]


def replay_witness(ctx, kf):
    common.import_pyrefact()
    w = kf["witness"]
    if "src" not in w or "rule" not in w:
        return None
    res = sweep.task_rules((w["src"], [w["rule"]], False))
    b = res["before"]
    return any(st == "ok" and after is not None and (after[0], after[1]) != (b[0], b[1]) for (_r, st, _n, after) in res["rules"])


def replay(ctx, inp):
    common.import_pyrefact()
    if "witness" in inp and "out" in inp:
        fn = oracles.resolve_rule(inp["rule"])
        out = fn(inp["src"])
        w = flowrules.differs(inp["src"], out)
        print(out, w)
        return bool(w)
    res = sweep.task_rules((inp["src"], [inp["rule"]], inp.get("family") == "repo-example"))
    b = res["before"]
    bad = any(st == "ok" and after is not None and (after[0], after[1], after[2]) != (b[0], b[1], b[2]) for (_r, st, _n, after) in res["rules"])
    print(res["rules"][:1])
    return bad
