"""C11 - layout stages never change program structure or string contents.
Proof: whitespace algebra of the modelled stages (Props/C11.lean); the literal-preservation statement is false of the text-level
stages and carries a counterexample theorem.  Tie: suite `layout`: str.expandtabs(4) and rmspace.format_str vs the models on texts
with tabs, blank runs, trailing blanks, CR line ends.  Oracle: ast.dump(parse(stage(s))) == ast.dump(parse(s)) for every layout stage
(fix_too_many_blank_lines, fix_line_lengths at several widths, sort_imports / fix_import_spacing, the final diff minimisation through
format_code on already-normal programs) with emphasis on multi-line / raw / f-string literals."""
from __future__ import annotations

import ast

import common
import oracles
import sweep
from common import Suite

TRUSTED = ["C11: 'removing whitespace-only lines / trailing blanks outside literals does not change the AST' is Python's lexical grammar - checked by the oracle",
           "C11: black and compactify are external"]
ASSUMPTIONS = ["docstring whitespace normalisation by the code formatter is tolerated"]

TEXTS = ["x = 1\t# c\n\ty = 2\n", "if a:\n\tb = 1\n\t\tc = 2\n", "s = 'a\tb'\n", "x = 1   \ny = 2\t \n\n\n\n\nz = 3  ", "a\r\n\tb\r\n", "\t\t\tq\n", "ab\tcd\tefgh\ti\n", "  \t x\n", "x = 1 \r\n",
         "s = '''a  \n\n\n\n\nb\t'''\n", "", "\t", " \n \n", "x\t\n\ty", "é\tü\n"]


def layout_suite(ctx):
    import rmspace

    s = Suite("layout")
    r = ctx.rng("layout")
    texts = list(TEXTS)
    alphabet = ["a", "b", " ", " ", "\t", "\n", "\r", "x = 1", "'s'", "#c"]
    while len(texts) < ctx.n(800, 15000):
        texts.append("".join(r.choice(alphabet) for _ in range(r.randint(1, 14))))
    answers = ctx.driver.ask([{"suite": "layout", "src": t} for t in texts])
    for t, ans in zip(texts, answers):
        s.cases += 1
        if "expandtabs" not in ans:
            s.disagreements.append({"src": t, "what": "driver refused"})
            continue
        if ans["expandtabs"] != t.expandtabs(4):
            s.disagreements.append({"src": t, "model": ans["expandtabs"], "real": t.expandtabs(4), "what": "expandtabs(4) differs from the model"})
        real = rmspace.format_str(t)
        if ans["rmspace"] != real:
            s.disagreements.append({"src": t, "model": ans["rmspace"], "real": real, "what": "rmspace.format_str differs from the model"})
        if "\t" in t or real != t:
            s.nt(t)
    s.samples.append({"suite": "layout", "src": "ab\tcd\tefgh\ti\n", "expandtabs": "ab  cd  efgh    i\n"})
    s.note = "15 hand-written + random texts over {letters, blanks, tabs, LF, CR, tokens}: str.expandtabs(4) and rmspace.format_str vs the models, byte for byte; non-trivial = contains a tab or has trailing blanks"
    return s


LITERAL_PROGRAMS = [
    'x = """line one\n\n\n\n\nline two"""\nprint(repr(x))\n', "y = 'a   '\nz = '''trailing   \nnext'''\nprint(repr(y), repr(z))\n", 'r = r"raw\\t\\n"\nb = b"by  tes"\nprint(r, b)\n',
    'name = "n"\nf = f"{name}:  {name!r:>10}   "\nprint(repr(f))\n', 'def g():\n    s = """\n    indented\n\n\n\n    block\n    """\n    return s\nprint(repr(g()))\n',
    'long = "' + "word " * 40 + '"\nprint(len(long))\n', "d = {'k': 'v  ', 'k2': '''m\n\n\n\nn'''}\nprint(d)\n", 'elif_hits = {"a": 1}\nelif_hits["b"] = 2\nprint(sorted(elif_hits))\n',
    "unit = 'ms'\nlabel = 'parse'\nelapsed = 12\nprint(f\"{label}: {elapsed}ms\", unit, \"it's\")\n", "import os\nimport sys\n\n\n\n\n\ndef f():\n\n\n\n    return os.sep + sys.platform[:0]\n\n\n\nprint(f())\n",
    "values = [\n    1,\n\n\n    2,\n]\nprint(values)\n", "x = (1 +\n     2 +   \n     3)\nprint(x)\n", "def usage():\n    import textwrap\n    text = '''\nusage: prog\n  -h  help\n'''\n    return textwrap.dedent(text)\nprint(usage())\n",
]


def literal_matrix():
    """string literals of every prefix / quote style around contents that text-level stages like to touch, in four positions"""
    contents = ["Options:\n\n    -v  verbose\n", "a  \nb\t\nc", "top\n\n\n\n\nbottom", "key:\n\n  nested:\n\n    leaf\n", "x\x0cy", "p\x0bq", "r\x1cs\x1dt\x1eu",
                "one\u2028two\u2029three", "n\x85m", "  leading and trailing  \n   \n", "if x:\n\n\n    pass\n", "import os\nimport sys\n\n\n\nprint(1)\n", "a\\\nb", "a\nmiddle\nend", "first line\nsecond line\nthird line\n"]
    out = []
    for prefix in ("", "r", "b", "f", "rb"):
        for q in ("'" * 3, '"' * 3):
            for c in contents:
                if "b" in prefix and any(ord(ch) > 127 for ch in c):
                    continue
                if prefix == "f":
                    c = c + "{1 + 1:>4}"
                if q[0] in c:
                    continue
                lit = prefix + q + c + q
                doc = lit if prefix == "" else "pass"
                for prog in (f"X = {lit}\nprint(repr(X))\n", f"def g():\n    y = {lit}\n    return y\n\n\nprint(repr(g()))\n",
                             f"def h():\n    {doc}\n    return 1\n\n\nprint(h.__doc__)\n", f"print(len([0, {lit}, 1]), repr({lit}))\n",
                             # inside brackets that the code formatter re-flows, with blank lines next to the literal
                             f"X = (\n\n    {lit})\nprint(repr(X))\n", f"Y = [\n    1,\n\n    {lit},\n\n    2,\n]\nprint(Y)\n",
                             f"def k():\n    return dict(\n\n        a={lit},\n\n        b=1)\n\n\nprint(k())\n"):
                    try:
                        compile(prog, "<lit>", "exec")
                    except (SyntaxError, ValueError):
                        continue
                    out.append(prog)
    # one-line literals with raw separators that str.splitlines() knows and the tokenizer does not
    for ch in ("\x0c", "\x0b", "\x1c", "\x1d", "\x1e", "\x85", "\u2028", "\u2029"):
        for prog in (f"s = 'a{ch}b'\nprint(len(s))\n", f"t = ('x', 'y{ch}z')  # c{ch}d\nprint(t)\n", f"def k():\n    return 'q{ch}'\n\n\nprint(k())\n"):
            try:
                compile(prog, "<lit>", "exec")
                out.append(prog)
            except (SyntaxError, ValueError):
                pass
    return sorted(set(out))


def task_stages(args):
    src, = args
    from pyrefact import fixes, processing
    import rmspace

    out = []
    try:
        base = ast.dump(ast.parse(src))
    except SyntaxError:
        return {"status": "skip"}
    stages = [("fix_too_many_blank_lines", lambda s_: fixes.fix_too_many_blank_lines(s_)), ("rmspace", rmspace.format_str),
              ("fix_import_spacing", fixes.fix_import_spacing)]
    for w in (60, 79, 100, 140):
        stages.append((f"fix_line_lengths({w})", lambda s_, w=w: fixes.fix_line_lengths(s_, max_line_length=w)))
    stages.append(("minimize_whitespace_line_differences", lambda s_: processing.minimize_whitespace_line_differences(s_, rmspace.format_str(s_))[0]))
    for name, fn in stages:
        st, res = oracles._guarded(lambda: fn(src), 60)
        if st != "ok":
            continue
        try:
            after = ast.dump(ast.parse(res))
        except SyntaxError:
            out.append((name, "result does not parse", res))
            continue
        if after != base:
            out.append((name, "the syntax tree changed", res))
    return {"status": "ok", "bad": out}


def stages_oracle(ctx):
    s = Suite("layout-ast", kind="oracle")
    base = sweep.baseline("C11")
    items = [(oracles.sha(p), p, "literal-program") for p in LITERAL_PROGRAMS]
    items += [(oracles.sha(p), p, "literal-matrix") for p in literal_matrix()]
    items += sweep.pick(sweep.generated_corpus(), ctx, 40) + sweep.pick(sweep.generated_corpus2(), ctx, 36) + sweep.pick(sweep.example_corpus(), ctx, 40)
    items += [(oracles.sha(x), x, "whitespace") for x in sweep.whitespace_inputs()[:40]]
    results = oracles.pmap(task_stages, [(src,) for (_sha, src, _fam) in items])
    for (sha, src, fam), res in zip(items, results):
        s.cases += 1
        if res.get("status") != "ok":
            continue
        s.nt(sha)
        for (stage, why, out) in res["bad"]:
            if sweep.key(sha, {}, stage) in base:
                continue
            s.disagreements.append({"sha": sha, "src": src, "stage": stage, "out": out, "family": fam, "what": f"layout stage {stage}: {why}"})
    s.note = ("a matrix of string literals (5 prefixes x 2 quote styles x 15 contents: colon-blank-indent, trailing blanks, blank runs, form feed / VT / FS-GS-RS / NEL / "
              "U+2028-9, code-like text; as module value, local, docstring, argument, and inside re-flowed brackets with blank lines next to the literal; plus one-line literals with raw separators) + 13 literal-heavy programs (triple-quoted with blank runs / trailing blanks / tabs, raw, bytes, f-strings with format specs, long lines, names starting with 'elif') + corpus + "
              "odd-layout inputs: ast.dump unchanged by fix_too_many_blank_lines, rmspace, sort_imports, fix_import_spacing, fix_line_lengths at 60/79/100/140, the diff minimisation")
    return s


def _resub_calls():
    """the `re.sub(pattern, replacement, source)` calls of fixes.fix_too_many_blank_lines, read off its source, in order"""
    import inspect
    import re
    import textwrap

    from pyrefact import fixes

    tree = ast.parse(textwrap.dedent(inspect.getsource(fixes.fix_too_many_blank_lines)))
    calls = []
    for node in ast.walk(tree):
        if isinstance(node, ast.Call) and isinstance(node.func, ast.Attribute) and node.func.attr == "sub" and len(node.args) == 3:
            try:
                pat = eval(compile(ast.Expression(node.args[0]), "<pat>", "eval"), {"__builtins__": {}})
                rep = eval(compile(ast.Expression(node.args[1]), "<rep>", "eval"), {"__builtins__": {}})
            except Exception:
                continue
            if isinstance(pat, str) and isinstance(rep, str):
                calls.append((node.lineno, node.col_offset, pat, rep))
    return [(pat, rep, (lambda t, pat=pat, rep=rep: re.sub(pat, rep, t))) for (_l, _c, pat, rep) in sorted(calls)]


TQ = "'" * 3


def blank_texts(ctx):
    import itertools

    r = ctx.rng("blanklines")
    texts = ["", "\n", "x", "x\n\n\n\n\ny\n", "def f():\n    a = 1\n\n  \n\n\n\n    b = 2\n", "import os\n\n\n\n\n\nx = 1\n\n\n", "a\n \n \n \n \n", "a\r\n\r\n\r\n\r\n\r\nb",
             "s = \"\"\"a\n\n\n\n\nb\"\"\"\n", "x\n\x0c\n\n\n\ny", "x\n\xa0\n\u2028\n\n\n  y", "if a:\n\n\n\n    b\n\n\n\nc\n", "x\n\n\n\n", "\n\n\n\nx", "x\n\n\n \ny", "x\n\n \n\ny", "x\n\n\n\n  ",
             "x" + "\n" * 14 + "y\n", "x\n" + " \n" * 12 + "  y\n"]
    for n in range(0, ctx.n(7, 9)):  # exhaustive small scope over {newline, blank, letter}
        for t in itertools.product("\n x", repeat=n):
            texts.append("".join(t))
    pool = ["\n", "\n", "\n", " ", "  ", "x", "y = 1", "\t", "\r", "\x0c", "\xa0", "    z", "\x1c", "\u2028", "\x85", "#c", TQ]
    for _ in range(ctx.n(6000, 120000)):
        texts.append("".join(r.choice(pool) for _ in range(r.randint(1, 18))))
    return texts


def blanklines_suite(ctx):
    from pyrefact import fixes

    s = Suite("blanklines")
    texts = blank_texts(ctx)
    answers = ctx.driver.ask([{"suite": "blanklines", "src": t} for t in texts])
    calls = _resub_calls()
    models = ["sub1", "sub2", "sub3"]
    # which model does each real substitution follow?  (a reordering of the three calls is covered by the theorems: each
    # substitution keeps the non-blank lines behind every prefix)
    assign = []
    for (pat, rep, fn) in calls:
        reals = [fn(t) for t in texts]
        agree = [m for m in models if all(a.get(m) == rl for a, rl in zip(answers, reals))]
        if agree:
            assign.append(agree[0])
            s.count("call follows " + agree[0])
        else:
            assign.append(None)
            best = min(models, key=lambda m: sum(a.get(m) != rl for a, rl in zip(answers, reals)))
            shown = 0
            for t, a, rl in zip(texts, answers, reals):
                if a.get(best) != rl and shown < 5:
                    shown += 1
                    s.disagreements.append({"src": t, "pattern": pat, "replacement": rep, "model": a.get(best), "real": rl,
                                            "what": f"re.sub({pat!r}, {rep!r}, .) of fix_too_many_blank_lines follows none of the three modelled substitutions (closest: {best})"})
    if len(calls) != 3:
        s.disagreements.append({"src": "", "what": f"fix_too_many_blank_lines makes {len(calls)} re.sub calls, the model has 3", "calls": [(c[0], c[1]) for c in calls]})
    reordered = all(assign) and len(assign) == 3 and assign != models and sorted(assign) == models
    if reordered:
        # the code applies the modelled substitutions in another order: compose the models in the code's order
        s.count("substitutions applied in the order " + ",".join(assign))
        cur = list(texts)
        for m in assign:
            step = ctx.driver.ask([{"suite": "blanklines", "src": t} for t in cur])
            cur = [a[m] for a in step]
        modelled = cur
    else:
        modelled = [a.get("fix") for a in answers]
    for t, mo in zip(texts, modelled):
        s.cases += 1
        real = fixes.fix_too_many_blank_lines(t)
        if real != t:
            s.nt(t)
        if mo != real:
            s.disagreements.append({"src": t, "model": mo, "real": real, "what": "fix_too_many_blank_lines differs from the model (the modelled substitutions composed in the code's order)"})
    s.samples.append({"suite": "blanklines", "src": "def f():\n    a = 1\n\n  \n\n\n\n    b = 2\n", "fix": "def f():\n    a = 1\n\n    b = 2\n"})
    s.note = ("19 hand-written texts + every text of length <= 6 (thorough: 8) over {newline, blank, letter} + random texts over {newlines, blanks, tabs, CR, FF, NBSP, FS, U+2028, NEL, tokens, quotes}: "
              "fixes.fix_too_many_blank_lines vs BlankLines.fixBlankLines byte for byte, and each re.sub call read off the function's source vs the substitution model it follows; non-trivial = the text changes")
    return s


def nbl_oracle(ctx):
    """the theorem's statement observed on the real function: non-blank lines verbatim and in order"""
    from pyrefact import fixes

    s = Suite("blanklines-lines", kind="oracle")
    for t in blank_texts(ctx):
        s.cases += 1
        real = fixes.fix_too_many_blank_lines(t)
        before = [l for l in t.split("\n") if l.strip()]
        after = [l for l in real.split("\n") if l.strip()]
        if before != after:
            s.disagreements.append({"src": t, "out": real, "stage": "fix_too_many_blank_lines", "sha": oracles.sha(t), "what": "fix_too_many_blank_lines changed a non-blank line (or their order)"})
        elif real != t:
            s.nt(t)
    s.note = "same texts: the lines with a non-whitespace character (split at newline) of fix_too_many_blank_lines(t) equal those of t - the statement of C11.blanklines_nonblank_lines_verbatim on the real function"
    return s


def minimize_cases(ctx):
    r = ctx.rng("minimize")
    pool = ["x = 1\n", "y = 2\n", "\n", "   \n", "\t\n", "    z = 3\n", "# c\n", "  \n", "a\r\n", "b\x0c\n", "\r\n", "q", "s = " + TQ + "\n", TQ + "\n", "\xa0\n", "w\u2028v\n", "\x1c\n"]
    cases = [("", ""), ("a\n", "a\n"), ("a\n\nb\n", "a\nb\n"), ("a\nb\n", "a\n\nb\n"), ("a\n\n\nb", "a\nb"), ("x=1\n\n", "x = 1\n"), ("a\n  \nb\n", "a\nb\nc\n")]
    while len(cases) < ctx.n(4000, 60000):
        old = [r.choice(pool) for _ in range(r.randint(0, 10))]
        new = list(old)
        for _ in range(r.randint(0, 5)):
            k = r.random()
            if k < 0.4 and new:
                del new[r.randrange(len(new))]
            elif k < 0.8:
                new.insert(r.randint(0, len(new)), r.choice(pool))
            elif new:
                i = r.randrange(len(new))
                new[i] = new[i].replace("1", "11").replace(" ", "  ", 1)
        cases.append(("".join(old), "".join(new)))
    return cases


def _nonsp(x):
    return [c for c in x if not c.isspace()]


def _real_lines(text):
    """the lines the real function diffs (physical lines since the repair of the form-feed defect; str.splitlines before)"""
    from pyrefact import core

    split = getattr(core, "_split_lines", None)
    return list(split(text)) if split is not None else text.splitlines(keepends=True)


def minimize_suite(ctx):
    import difflib

    from pyrefact import processing

    s = Suite("minimize")
    cases = minimize_cases(ctx)
    reqs = []
    for old, new in cases:
        diffs = list(difflib.Differ().compare(_real_lines(old), _real_lines(new)))
        reqs.append({"suite": "minimize", "script": [[d[0], d[2:]] for d in diffs]})
    answers = ctx.driver.ask(reqs)
    for (old, new), a in zip(cases, answers):
        s.cases += 1
        real = processing.minimize_whitespace_line_differences(old, new)[0]
        if a.get("new") != new:
            s.disagreements.append({"old": old, "new": new, "model_new": a.get("new"), "what": "the diff script does not rebuild the new text (harness / difflib contract)"})
        if a.get("text") != real:
            s.disagreements.append({"old": old, "new": new, "model": a.get("text"), "real": real, "what": "minimize_whitespace_line_differences differs from the model"})
        if real != new:
            s.nt([old, new])
            s.count("restores or drops whitespace-only groups")
        else:
            s.count("returns the new text")
    s.samples.append({"suite": "minimize", "script": [[" ", "a\n"], ["-", "\n"], [" ", "b\n"]], "text": "a\n\nb\n"})
    s.note = ("7 hand-written + random (old, new) line edits over code lines, blank lines with blanks / tabs / CR / FF / NBSP / FS, unterminated last lines, triple-quote lines: the script of difflib.Differ (as the real function "
              "computes it) is handed to Minimize.minimize; rebuilt text vs processing.minimize_whitespace_line_differences(old, new)[0] byte for byte; non-trivial = the result differs from the new text")
    return s


def minimize_oracle(ctx):
    """the theorem's statement observed on the real function"""
    from pyrefact import processing

    s = Suite("minimize-chars", kind="oracle")
    for old, new in minimize_cases(ctx):
        s.cases += 1
        real = processing.minimize_whitespace_line_differences(old, new)[0]
        if _nonsp(real) != _nonsp(new):
            s.disagreements.append({"src": old, "new": new, "out": real, "stage": "minimize_whitespace_line_differences", "sha": oracles.sha(old + "\0" + new),
                                    "what": "minimize_whitespace_line_differences changed non-whitespace characters of the formatted text"})
        elif real != new:
            s.nt([old, new])
    s.note = "same (old, new) pairs: the non-whitespace characters of the rebuilt text equal those of the new text - the statement of C11.minimize_only_whitespace on the real function"
    return s


def suites(ctx):
    common.import_pyrefact()
    return [layout_suite(ctx), blanklines_suite(ctx), nbl_oracle(ctx), minimize_suite(ctx), minimize_oracle(ctx), stages_oracle(ctx)]


def match_known(d, known):
    for k in known:
        w = k.get("witness", {}) if k["kind"] == "finding" else {}
        if w and w.get("sha") == d.get("sha") and w.get("stage") == d.get("stage"):
            return k
    return None


def replay_witness(ctx, kf):
    common.import_pyrefact()
    w = kf["witness"]
    if "src" in w and "stage" in w:
        res = task_stages((w["src"],))
        return any(b[0] == w["stage"] for b in res.get("bad", []))
    return None


def search(ctx, breaks):
    common.import_pyrefact()
    return stages_oracle(ctx).disagreements[:5]


def replay(ctx, inp):
    common.import_pyrefact()
    res = task_stages((inp["src"],))
    bad = [b for b in res.get("bad", []) if b[0] == inp.get("stage")]
    print(bad[:1])
    return bool(bad)
