"""C11 - layout stages never change program structure or string contents.
Proof: whitespace algebra of the modelled stages (Props/C11.lean); the literal-preservation statement is false of the text-level
stages and carries a counterexample theorem.  Tie: suite `layout`: str.expandtabs(4) and rmspace.format_str vs the models on texts
with tabs, blank runs, trailing blanks, CR line ends.  Oracle: ast.dump(parse(stage(s))) == ast.dump(parse(s)) for every layout stage
(fix_too_many_blank_lines, fix_line_lengths at several widths, sort_imports / fix_import_spacing, the final diff minimisation through
format_code on already-normal programs) with emphasis on multi-line / raw / f-string literals."""
from __future__ import annotations

import ast

import common
import oracles
import sweep
from common import Suite

TRUSTED = ["C11: 'removing whitespace-only lines / trailing blanks outside literals does not change the AST' is Python's lexical grammar - checked by the oracle",
           "C11: black and compactify are external"]
ASSUMPTIONS = ["docstring whitespace normalisation by the code formatter is tolerated"]

TEXTS = ["x = 1\t# c\n\ty = 2\n", "if a:\n\tb = 1\n\t\tc = 2\n", "s = 'a\tb'\n", "x = 1   \ny = 2\t \n\n\n\n\nz = 3  ", "a\r\n\tb\r\n", "\t\t\tq\n", "ab\tcd\tefgh\ti\n", "  \t x\n", "x = 1 \r\n",
         "s = '''a  \n\n\n\n\nb\t'''\n", "", "\t", " \n \n", "x\t\n\ty", "é\tü\n"]


def layout_suite(ctx):
    import rmspace

    s = Suite("layout")
    r = ctx.rng("layout")
    texts = list(TEXTS)
    alphabet = ["a", "b", " ", " ", "\t", "\n", "\r", "x = 1", "'s'", "#c"]
    while len(texts) < ctx.n(800, 15000):
        texts.append("".join(r.choice(alphabet) for _ in range(r.randint(1, 14))))
    answers = ctx.driver.ask([{"suite": "layout", "src": t} for t in texts])
    for t, ans in zip(texts, answers):
        s.cases += 1
        if "expandtabs" not in ans:
            s.disagreements.append({"src": t, "what": "driver refused"})
            continue
        if ans["expandtabs"] != t.expandtabs(4):
            s.disagreements.append({"src": t, "model": ans["expandtabs"], "real": t.expandtabs(4), "what": "expandtabs(4) differs from the model"})
        real = rmspace.format_str(t)
        if ans["rmspace"] != real:
            s.disagreements.append({"src": t, "model": ans["rmspace"], "real": real, "what": "rmspace.format_str differs from the model"})
        if "\t" in t or real != t:
            s.nt(t)
    s.samples.append({"suite": "layout", "src": "ab\tcd\tefgh\ti\n", "expandtabs": "ab  cd  efgh    i\n"})
    s.note = "15 hand-written + random texts over {letters, blanks, tabs, LF, CR, tokens}: str.expandtabs(4) and rmspace.format_str vs the models, byte for byte; non-trivial = contains a tab or has trailing blanks"
    return s


LITERAL_PROGRAMS = [
    'x = """line one\n\n\n\n\nline two"""\nprint(repr(x))\n', "y = 'a   '\nz = '''trailing   \nnext'''\nprint(repr(y), repr(z))\n", 'r = r"raw\\t\\n"\nb = b"by  tes"\nprint(r, b)\n',
    'name = "n"\nf = f"{name}:  {name!r:>10}   "\nprint(repr(f))\n', 'def g():\n    s = """\n    indented\n\n\n\n    block\n    """\n    return s\nprint(repr(g()))\n',
    'long = "' + "word " * 40 + '"\nprint(len(long))\n', "d = {'k': 'v  ', 'k2': '''m\n\n\n\nn'''}\nprint(d)\n", 'elif_hits = {"a": 1}\nelif_hits["b"] = 2\nprint(sorted(elif_hits))\n',
    "unit = 'ms'\nlabel = 'parse'\nelapsed = 12\nprint(f\"{label}: {elapsed}ms\", unit, \"it's\")\n", "import os\nimport sys\n\n\n\n\n\ndef f():\n\n\n\n    return os.sep + sys.platform[:0]\n\n\n\nprint(f())\n",
    "values = [\n    1,\n\n\n    2,\n]\nprint(values)\n", "x = (1 +\n     2 +   \n     3)\nprint(x)\n", "def usage():\n    import textwrap\n    text = '''\nusage: prog\n  -h  help\n'''\n    return textwrap.dedent(text)\nprint(usage())\n",
]


def literal_matrix():
    """string literals of every prefix / quote style around contents that text-level stages like to touch, in four positions"""
    contents = ["Options:\n\n    -v  verbose\n", "a  \nb\t\nc", "top\n\n\n\n\nbottom", "key:\n\n  nested:\n\n    leaf\n", "x\x0cy", "p\x0bq", "r\x1cs\x1dt\x1eu",
                "one\u2028two\u2029three", "n\x85m", "  leading and trailing  \n   \n", "if x:\n\n\n    pass\n", "import os\nimport sys\n\n\n\nprint(1)\n", "a\\\nb"]
    out = []
    for prefix in ("", "r", "b", "f", "rb"):
        for q in ("'" * 3, '"' * 3):
            for c in contents:
                if "b" in prefix and any(ord(ch) > 127 for ch in c):
                    continue
                if prefix == "f":
                    c = c + "{1 + 1:>4}"
                if q[0] in c:
                    continue
                lit = prefix + q + c + q
                doc = lit if prefix == "" else "pass"
                for prog in (f"X = {lit}\nprint(repr(X))\n", f"def g():\n    y = {lit}\n    return y\n\n\nprint(repr(g()))\n",
                             f"def h():\n    {doc}\n    return 1\n\n\nprint(h.__doc__)\n", f"print(len([0, {lit}, 1]), repr({lit}))\n"):
                    try:
                        compile(prog, "<lit>", "exec")
                    except (SyntaxError, ValueError):
                        continue
                    out.append(prog)
    # one-line literals with raw separators that str.splitlines() knows and the tokenizer does not
    for ch in ("\x0c", "\x0b", "\x1c", "\x1d", "\x1e", "\x85", "\u2028", "\u2029"):
        for prog in (f"s = 'a{ch}b'\nprint(len(s))\n", f"t = ('x', 'y{ch}z')  # c{ch}d\nprint(t)\n", f"def k():\n    return 'q{ch}'\n\n\nprint(k())\n"):
            try:
                compile(prog, "<lit>", "exec")
                out.append(prog)
            except (SyntaxError, ValueError):
                pass
    return sorted(set(out))


def task_stages(args):
    src, = args
    from pyrefact import fixes, processing
    import rmspace

    out = []
    try:
        base = ast.dump(ast.parse(src))
    except SyntaxError:
        return {"status": "skip"}
    stages = [("fix_too_many_blank_lines", lambda s_: fixes.fix_too_many_blank_lines(s_)), ("rmspace", rmspace.format_str),
              ("fix_import_spacing", fixes.fix_import_spacing)]
    for w in (60, 79, 100, 140):
        stages.append((f"fix_line_lengths({w})", lambda s_, w=w: fixes.fix_line_lengths(s_, max_line_length=w)))
    stages.append(("minimize_whitespace_line_differences", lambda s_: processing.minimize_whitespace_line_differences(s_, rmspace.format_str(s_))[0]))
    for name, fn in stages:
        st, res = oracles._guarded(lambda: fn(src), 60)
        if st != "ok":
            continue
        try:
            after = ast.dump(ast.parse(res))
        except SyntaxError:
            out.append((name, "result does not parse", res))
            continue
        if after != base:
            out.append((name, "the syntax tree changed", res))
    return {"status": "ok", "bad": out}


def stages_oracle(ctx):
    s = Suite("layout-ast", kind="oracle")
    base = sweep.baseline("C11")
    items = [(oracles.sha(p), p, "literal-program") for p in LITERAL_PROGRAMS]
    items += [(oracles.sha(p), p, "literal-matrix") for p in literal_matrix()]
    items += sweep.pick(sweep.generated_corpus(), ctx, 40) + sweep.pick(sweep.generated_corpus2(), ctx, 36) + sweep.pick(sweep.example_corpus(), ctx, 40)
    items += [(oracles.sha(x), x, "whitespace") for x in sweep.whitespace_inputs()[:40]]
    results = oracles.pmap(task_stages, [(src,) for (_sha, src, _fam) in items])
    for (sha, src, fam), res in zip(items, results):
        s.cases += 1
        if res.get("status") != "ok":
            continue
        s.nt(sha)
        for (stage, why, out) in res["bad"]:
            if sweep.key(sha, {}, stage) in base:
                continue
            s.disagreements.append({"sha": sha, "src": src, "stage": stage, "out": out, "family": fam, "what": f"layout stage {stage}: {why}"})
    s.note = ("a matrix of string literals (5 prefixes x 2 quote styles x 13 contents: colon-blank-indent, trailing blanks, blank runs, form feed / VT / FS-GS-RS / NEL / "
              "U+2028-9, code-like text; as module value, local, docstring, argument; plus one-line literals with raw separators) + 13 literal-heavy programs (triple-quoted with blank runs / trailing blanks / tabs, raw, bytes, f-strings with format specs, long lines, names starting with 'elif') + corpus + "
              "odd-layout inputs: ast.dump unchanged by fix_too_many_blank_lines, rmspace, sort_imports, fix_import_spacing, fix_line_lengths at 60/79/100/140, the diff minimisation")
    return s


def suites(ctx):
    common.import_pyrefact()
    return [layout_suite(ctx), stages_oracle(ctx)]


def match_known(d, known):
    for k in known:
        w = k.get("witness", {}) if k["kind"] == "finding" else {}
        if w and w.get("sha") == d.get("sha") and w.get("stage") == d.get("stage"):
            return k
    return None


def replay_witness(ctx, kf):
    common.import_pyrefact()
    w = kf["witness"]
    if "src" in w and "stage" in w:
        res = task_stages((w["src"],))
        return any(b[0] == w["stage"] for b in res.get("bad", []))
    return None


def search(ctx, breaks):
    common.import_pyrefact()
    return stages_oracle(ctx).disagreements[:5]


def replay(ctx, inp):
    common.import_pyrefact()
    res = task_stages((inp["src"],))
    bad = [b for b in res.get("bad", []) if b[0] == inp.get("stage")]
    print(bad[:1])
    return bool(bad)
