"""C07 - safe mode never removes or renames a module's public surface.
Proof: guard logic over the safe-mode set (Props/C07.lean).  Tie: suite `safeset`: the preserve set format_code(safe=True) really
hands to the rules (captured from the harness) vs the model's safeSet on the exported module summary.  Oracle: surface names of
the input vs the output of format_code(safe=True) on library-like modules and the corpus."""
from __future__ import annotations

import common
import oracles
import preserve_common as pc
import sweep
from common import Suite

TRUSTED = ["C07: that every deleting / renaming rule consults `preserve` is examined by the surface oracle, rule by rule evidence is in C08",
           "C07: parsing.iter_assignments is taken from the real code when the summary is exported (the surface oracle has its own, ast-based collection of assigned names)"]
ASSUMPTIONS = []


# programs on which the abstraction step changes the text, so that the second fix loop of format_code runs
SECOND_LOOP = [
    "RETRIES = 3\n\n\nclass Registry:\n    limit = 10\n\n    def get(self, key):\n        entry = self.items[key]\n        return entry\n\n    def unusedOne(self):\n        return 1\n\n\ndef make_registry():\n    r = Registry()\n    return r\n",
    "def labels():\n    return ['a-long-literal-number-one', 'a-long-literal-number-one', 'a-long-literal-number-one', 'a-long-literal-number-one', 'a-long-literal-number-one']\n\n\ndef unusedTwo(v):\n    w = v + 1\n    return w\n\n\nspareValue = 4\n",
    "class Shape:\n    SIDES = 4\n\n    def area(self, w, h):\n        total = w * h\n        return total\n\n    @staticmethod\n    def unit():\n        value = 1\n        return value\n\n\nhelperVal = Shape.unit()\n",
]


def safeset_suite(ctx):
    s = Suite("safeset")
    srcs = pc.LIB_TEMPLATES + SECOND_LOOP + [src for (_sha, src, _f) in sweep.pick(sweep.generated_corpus(), ctx, 20) + sweep.pick(sweep.generated_corpus2(), ctx, 20)]
    reqs, metas = [], []
    for src in srcs:
        for pres in ([], ["extra_name", "helper"]):
            try:
                defs, cms, assigns, cas = pc.summary(src)
            except SyntaxError:
                continue
            reqs.append({"suite": "preserve", "defs": defs, "class_methods": cms, "class_assigns": cas, "assigns": assigns, "preserve": pres, "used": [], "ns": "", "imported": [], "loads": [], "attrs": []})
            metas.append((src, pres))
    answers = ctx.driver.ask(reqs)
    for (src, pres), ans in zip(metas, answers):
        s.cases += 1
        real = pc.capture_safe_preserve(src, frozenset(pres))
        if real is None:
            continue
        if set(ans.get("safe", [])) != real:
            s.disagreements.append({"src": src, "preserve": pres, "model": sorted(ans.get("safe", [])), "real": sorted(real), "what": "the safe-mode preserve set differs from the model"})
            continue
        # every rule call that takes a preserve set, anywhere in the run (first fix loop, naming, the loop after the abstraction step), gets that set
        for (label, got) in pc.capture_all_preserve(src, frozenset(pres)):
            s.count(label)
            if set(got) != real:
                s.disagreements.append({"src": src, "preserve": pres, "rule": label, "model": sorted(ans.get("safe", [])), "real": sorted(got),
                                        "what": f"{label} is called with another preserve set than the safe-mode set (missing: {sorted(real - set(got))[:6]})"})
                break
        if len(real) > len(pres):
            s.nt([src, pres])
    s.samples.append({"suite": "safeset", "src": pc.LIB_TEMPLATES[1][:120], "safe_set": ["Greeter", "Greeter.Meth", "Greeter.build", "Greeter.greeting", "Greeter.helper", "Greeter.myVal", "make"]})
    s.note = "library-like templates + 3 programs that reach the second fix loop + corpus programs x 2 caller preserve sets: the set format_code(safe=True) passes to _multi_run_fixes (captured) vs safeSet of the module summary; then the real pipeline is run and the preserve argument of EVERY rule call that takes one must be that set (histogram = such calls per rule)"
    return s


def task_surface(args):
    src, opts = args
    st, out = oracles.task_format((src, dict(opts), "format"))
    if st != "ok":
        return {"status": st}
    try:
        return {"status": "ok", "before": sorted(pc.surface(src)), "after": sorted(pc.surface(out)), "out": out}
    except SyntaxError:
        return {"status": "invalid-out"}


def surface_suite(ctx):
    s = Suite("safe-surface", kind="oracle")
    base = sweep.baseline("C07")
    items = [(oracles.sha(t), t, "library-template") for t in pc.LIB_TEMPLATES]
    items += sweep.pick(sweep.generated_corpus(), ctx, 60) + sweep.pick(sweep.generated_corpus2(), ctx, 60) + sweep.generated_corpus3()[:8] + sweep.pick(sweep.example_corpus(), ctx, 40)
    results = oracles.pmap(task_surface, [(src, {"safe": True}) for (_sha, src, _fam) in items])
    for (sha, src, fam), res in zip(items, results):
        s.cases += 1
        if res["status"] != "ok":
            continue
        s.nt(sha)
        missing = sorted(set(res["before"]) - set(res["after"]))
        missing = [m for m in missing if sweep.key(sha, {}, m) not in base]
        if missing:
            s.disagreements.append({"sha": sha, "src": src, "family": fam, "missing": missing, "out": res["out"],
                                    "what": f"format_code(safe=True) removed or renamed surface name(s) {missing}"})
    s.note = "library templates (unused / camelCase / duplicate / static definitions, list and starred targets, class members) + corpus: every surface name of the input is still defined in format_code(safe=True)'s output"
    return s


# bodies that hold an effect-free binding of `_`: (source, class that owns the body or None)
UNDERSCORE_BODIES = [
    ("class C:\n    x = 1\n    _ = 3\n", "C"),
    ("class C:\n    x = 1\n    _: int = 3\n", "C"),
    ("class C:\n    x = 1\n\n    def _(self):\n        return 1\n", "C"),
    ("class C:\n    x = 1\n\n    class _:\n        y = 2\n", "C"),
    ("class Outer:\n    z = 0\n\n    class C:\n        x = 1\n        _ = 3\n", "C"),
    ("class C:\n    _ = 3\n    x = 1\n", "C"),
    ("class C:\n    def _(self):\n        return 1\n\n    x = 1\n", "C"),
    ("_ = 3\nx = 1\n", None),
    ("x = 1\n_ = 3\n", None),
    ("def f():\n    _ = 3\n    return 1\n", None),
    ("x = 1\nif x:\n    _ = 3\n    x = 2\n", None),
    ("class C:\n    x = 1\n\n    def m(self):\n        _ = 3\n        return 1\n", None),
]
UNDERSCORE_PRESERVE = [[], ["_"], ["C._"], ["C"], ["D._"], ["C.x", "Outer.C"], ["C._", "_"], ["Outer._"]]
UNDERSCORE_TAILS = ["", "print(_)\n", "del _\n", "print(C)\n"]


def binds_underscore(src):
    import ast
    for n in ast.walk(ast.parse(src)):
        if isinstance(n, ast.Name) and n.id == "_" and isinstance(n.ctx, ast.Store):
            return True
        if isinstance(n, (ast.FunctionDef, ast.AsyncFunctionDef, ast.ClassDef)) and n.name == "_":
            return True
    return False


def underscore_suite(ctx):
    """the `_` guard of delete_pointless_statements (Preserve.keepsUnderscore) against the real rule"""
    import ast
    from pyrefact import fixes
    s = Suite("underscore-guard")
    reqs, metas = [], []
    for body, cls in UNDERSCORE_BODIES:
        for tail in UNDERSCORE_TAILS:
            src = body + tail
            read = any(isinstance(n, ast.Name) and n.id == "_" and isinstance(n.ctx, (ast.Load, ast.Del)) for n in ast.walk(ast.parse(src)))
            for pres in UNDERSCORE_PRESERVE:
                reqs.append({"suite": "preserve", "defs": [], "class_methods": [], "class_assigns": [], "assigns": [], "preserve": pres, "used": [], "ns": "",
                             "imported": [], "loads": [], "attrs": [], "underscore_read": read, "cls": cls})
                metas.append((src, pres, read, cls))
    answers = ctx.driver.ask(reqs)
    for (src, pres, read, cls), ans in zip(metas, answers):
        s.cases += 1
        try:
            out = fixes.delete_pointless_statements(src, preserve=frozenset(pres))
            real = binds_underscore(out)
        except Exception as e:  # noqa: BLE001
            s.disagreements.append({"src": src, "preserve": pres, "what": f"delete_pointless_statements raised {type(e).__name__}: {e}"})
            continue
        model = ans.get("keeps_underscore")
        s.count(f"kept={real} class-body={cls is not None} read={read}")
        if model is not real:
            s.disagreements.append({"src": src, "preserve": pres, "model": model, "real": real, "out": out,
                                    "what": f"the binding of _ is {'kept' if real else 'deleted'} by delete_pointless_statements, the model says {'kept' if model else 'deleted'}"})
        elif real and not read and "_" not in pres:
            s.nt([src, pres])
    s.samples.append({"suite": "underscore-guard", "src": UNDERSCORE_BODIES[0][0], "preserve": ["C._"], "kept": True})
    s.note = "12 bodies binding `_` (class attribute, annotated, method, nested class, nested class body, first statement of a class / the module, module, function, if, method body) x 4 tails (nothing / read / del / unrelated) x 8 preserve sets: whether the real delete_pointless_statements keeps the binding vs Preserve.keepsUnderscore"
    return s


def suites(ctx):
    common.import_pyrefact()
    return [safeset_suite(ctx), underscore_suite(ctx), surface_suite(ctx)]


def match_known(d, known):
    for k in known:
        w = k.get("witness", {}) if k["kind"] == "finding" else {}
        if w and w.get("sha") == d.get("sha") and set(d.get("missing", [])) <= set(w.get("missing", [])):
            return k
    return None


def replay_witness(ctx, kf):
    common.import_pyrefact()
    w = kf["witness"]
    if "src" not in w:
        return None
    res = task_surface((w["src"], {"safe": True}))
    return res["status"] == "ok" and bool(set(w["missing"]) & (set(res["before"]) - set(res["after"])))


def search(ctx, breaks):
    common.import_pyrefact()
    return surface_suite(ctx).disagreements[:5]


def replay(ctx, inp):
    common.import_pyrefact()
    res = task_surface((inp["src"], {"safe": True}))
    miss = set(res.get("before", [])) - set(res.get("after", []))
    print(sorted(miss))
    return bool(miss)
