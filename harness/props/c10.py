"""C10 - rewrites are scheduled transactionally and never overlap.

Tie: the Lean model `schedule` / `spliceRw` / `applyRewrites` / `fixLoop` (lean/PyrefactModel/Sched.lean) against
 (i)  the public `processing.chain(rules, max_iter=1)` / `processing.fix` driven by synthetic rules over a marker
      source on which `_do_rewrite` is a pure splice (side conditions enforced by the generator, see gen_case),
 (ii) `processing._schedule_rewrites` (when that name exists): the scheduled (group, txn, start, end, new) list.
Search oracle (on the real output only, written from the property statement, no model involved): atomicity,
non-overlap, ignored lines, drop reasons, rollback."""
from __future__ import annotations

import itertools
import json

import common
from common import Suite

TRUSTED = [
    "C10: `_do_rewrite` beyond the pure splice (indent repair, `pass` insertion, generator parenthesisation, difflib whitespace minimisation) is modelled as a parameter; the generator enforces the side conditions under which it is a splice",
    "C10: `core.is_valid_python` is the validity predicate parameter of `applyRewrites`",
]
ASSUMPTIONS = [
    "rewrites are (Range, str) pairs; AST-node rewrites are reduced to ranges by `get_charnos` (C13) before scheduling",
    "new texts of the synthetic rules contain no newline, no '#', no leading/trailing blank",
]


# ----------------------------------------------------------------------------------------------- generation

IGNORE_SPELLINGS = ["# pyrefact: ignore", "#pyrefact:ignore", "#  pyrefact  :  ignore", "# pyrefact : ignore",
                    "# pyrefact :skip_file", "# pyrefact: skip_file", "#\tpyrefact:\tignore", "# x # pyrefact: ignore y"]
NEAR_MISSES = ["# pyrefact ignore", "# pyrefact: ignor", "# refact: ignore", "# pyrefact; ignore", "# PYREFACT: IGNORE"]
IGNORE_RE = __import__("re").compile(r"#\s*pyrefact\s*:\s*(skip_file|ignore)")


def make_source(r, nlines=None):
    nlines = nlines or r.randint(1, 4)
    lines, meta, pos = [], [], 0
    for i in range(nlines):
        x = r.random()
        comment = ""
        if x < 0.12:
            comment = "  # pyrefact: ignore"
        elif x < 0.22:
            comment = "  " + r.choice(IGNORE_SPELLINGS)
        elif x < 0.30:
            comment = "  " + r.choice(NEAR_MISSES)
        toks = [f"a{i}{j}" for j in range(4)]
        txt = f"v{i} = [" + ", ".join(toks) + "]" + comment + "\n"
        meta.append((pos, pos + len(txt), bool(IGNORE_RE.search(txt)), txt))
        pos += len(txt)
        lines.append(txt)
    return "".join(lines), meta


def token_points(meta):
    """interesting offsets in each line: token starts/ends inside the list"""
    pts = []
    for (ls, le, ig, txt) in meta:
        p = []
        body_start = txt.index("[") + 1
        k = body_start
        for tok in txt[body_start:txt.index("]")].split(", "):
            p.append((ls + k, ls + k + len(tok)))
            k += len(tok) + 2
        pts.append(p)
    return pts


def gen_case(r, max_groups=3, max_yields=5, invalid_rate=0.08):
    """One scheduling configuration. Generator rules (side conditions for the pure-splice reading):
    only insertions start in column 0; replaced text is empty (insertion) or non-blank; new text is a unique marker
    (or '' for a deletion of non-blank text), has no newline/'#'/outer blanks."""
    src, meta = make_source(r)
    pts = token_points(meta)
    groups, mk = [], itertools.count()
    pool = []  # reuse earlier yields to provoke duplicates
    for g in range(r.randint(1, max_groups)):
        ys = []
        for _ in range(r.randint(0, max_yields)):
            if pool and r.random() < 0.15:
                s, e, new, _ = r.choice(pool)
                txn = r.choice([None, 1, 2, 3])
                ys.append([s, e, new, txn])
                continue
            li = r.randrange(len(meta))
            toks = pts[li]
            a = r.randrange(len(toks))
            kind = r.random()
            kind_boundary = True
            if kind < 0.07:  # insertion at the very start of a line (column 0: the marker joins the name that starts the line)
                s = e = meta[li][0]
            elif kind < 0.25:  # insertion at a token start or end
                s = e = r.choice(toks[a])
            elif kind < 0.65:  # one token, or a token span
                b = r.randrange(a, len(toks))
                s, e = toks[a][0], toks[b][1]
            elif kind < 0.8:  # partial token / with separator
                kind_boundary = False
                s = toks[a][0] + r.randint(0, 2)
                e = min(meta[li][1] - 1, s + r.randint(1, 6))
            elif kind < 0.9 and li + 1 < len(meta):  # cross-line
                s = toks[a][0]
                e = r.choice(pts[li + 1])[r.randint(0, 1)]
            else:
                s, e = toks[a]
            code = src[s:e]
            if code and not code.strip():
                continue
            m = next(mk)
            if code and kind_boundary and r.random() < 0.2:
                new = ""  # deletions only at token boundaries ('pass' + token tail would be an identifier)
            elif r.random() < invalid_rate:
                new = f"(M{m}x"
            else:
                new = f"M{m}x"
            txn = r.choice([None, None, None, 1, 2, 3])
            ys.append([s, e, new, txn])
            pool.append((s, e, new, txn))
        groups.append(ys)
    return src, meta, groups


# ----------------------------------------------------------------------------------------------- real code

def make_rules(groups):
    from pyrefact import core

    rules = []
    for k, g in enumerate(groups):
        def mk(g):
            def rule(source):
                for (s, e, new, txn) in g:
                    if txn is None:
                        yield core.Range(s, e), new
                    else:
                        yield core.Range(s, e), new, txn
            return rule
        f = mk(g)
        f.__name__ = f"rule_{k}"
        rules.append(f)
    return rules


def real_schedule(src, groups):
    from pyrefact import processing

    if not hasattr(processing, "_schedule_rewrites"):
        return None
    funcs = [(f, [src], {}) for f in make_rules(groups)]
    sch = processing._schedule_rewrites(src, funcs)
    return [[t.group_number, t.transaction_number, r.start, r.end, rw.new] for t, (r, rw) in sch]


def real_pass(src, groups):
    from pyrefact import processing

    return processing.chain(make_rules(groups), max_iter=1)(src)


# ----------------------------------------------------------------------------------------------- oracle

def overlaps(a, b):
    return a[0] < b[1] and b[0] < a[1]


def filled(groups):
    """(group, txn) -> list of (s, e, new), read off the statement: default-numbered yields are singletons"""
    c = -100000000
    txns = {}
    for g, ys in enumerate(groups):
        for (s, e, new, txn) in ys:
            c += 1
            txns.setdefault((g, txn if txn is not None else c), []).append((s, e, new))
    return txns


def oracle(src, meta, groups, out):
    """Clauses of the property checked on the real output `out` of one pass.  Returns a description or None."""
    from pyrefact import core

    txns = filled(groups)
    uses = {}
    for key, rws in txns.items():
        for rw in set(rws):
            uses.setdefault(rw[2], set()).add((key, rw))

    def applied(rw):
        s, e, new = rw
        if new:
            n, k = out.count(new), len(uses[new])
            if n == 0:
                return False
            return True if n == k else None  # re-yielded marker applied for some of its transactions: unknown which
        return None  # a deletion leaves no marker

    if not core.is_valid_python(out):
        return "the pass returned text that does not parse"
    status = {}
    for key, rws in txns.items():
        flags = {applied(rw) for rw in set(rws)}
        if True in flags and False in flags:
            return f"transaction {key} applied partially: {rws}"
        status[key] = True if flags == {True} else (False if flags == {False} else None)
    app = [(key, rw) for key, rws in txns.items() if status[key] for rw in set(rws)]
    for (k1, r1), (k2, r2) in itertools.combinations(app, 2):
        if overlaps(r1, r2):
            return f"two applied rewrites overlap: {k1}:{r1} and {k2}:{r2}"
    ign = [(ls, le) for (ls, le, ig, _) in meta if ig]
    for key, rw in app:
        if any(overlaps(rw, l) for l in ign):
            return f"applied rewrite {key}:{rw} touches an ignored line"
    if all(st is False for st in status.values()):
        if out != src:
            return "no transaction applied but the text changed"
        # a complete rollback is legitimate only if the combined result would not parse - cannot be judged here
        return None
    if any(st is None for st in status.values()):
        return None  # drop reasons need the exact applied set
    # drop reasons
    for key, rws in txns.items():
        if status[key] is not False:
            continue
        rs = sorted(set(rws))
        reason = any(overlaps(a, b) for a, b in itertools.combinations(rs, 2))
        reason = reason or any(overlaps(rw, l) for rw in rs for l in ign)
        reason = reason or any(k2 < key and tuple(r2) == tuple(rws) for k2, r2 in txns.items())
        reason = reason or any(k2 < key and overlaps(rw, r2) for rw in rs for (k2, r2) in app)
        if not reason:
            return f"transaction {key} {rws} was dropped although it neither self-overlaps, duplicates or overlaps a transaction with precedence, nor touches an ignored line"
    return None


# ----------------------------------------------------------------------------------------------- suites

def run_cases(ctx, cases, suite):
    from pyrefact import core

    reqs = [{"suite": "sched", "src": src, "groups": groups} for (src, meta, groups) in cases]
    answers = ctx.driver.ask(reqs)
    for (src, meta, groups), ans in zip(cases, answers):
        suite.cases += 1
        if "sched" not in ans:
            suite.disagreements.append({"src": src, "groups": groups, "model": ans, "real": "?", "what": "driver refused the request"})
            continue
        nyield = sum(len(g) for g in groups)
        suite.count(f"yields={min(nyield, 9)}")
        suite.count(f"accepted={min(len(ans['sched']), 9)}")
        try:
            rs = real_schedule(src, groups)
            out = real_pass(src, groups)
        except Exception as ex:
            suite.disagreements.append({"src": src, "groups": groups, "model": ans, "real": repr(ex), "what": "real code raised"})
            continue
        expected = ans["text"] if core.is_valid_python(ans["text"]) else src
        if expected == src and ans["sched"]:
            suite.count("rollback")
        if rs is not None and rs != ans["sched"]:
            suite.disagreements.append({"src": src, "groups": groups, "model": ans["sched"], "real": rs, "what": "scheduled list differs"})
        elif out != expected:
            suite.disagreements.append({"src": src, "groups": groups, "model": expected, "real": out, "what": "text after one pass differs"})
        if 0 < len(ans["sched"]) < nyield:
            suite.nt([src, groups])
        if len(suite.samples) < 2 and 0 < len(ans["sched"]) < nyield:
            suite.samples.append({"suite": suite.name, "src": src, "groups": groups, "model_sched": ans["sched"], "real_text": out})


def exhaustive_cases(limit):
    """all assignments of <=3 yields over a fixed set of 7 ranges x {default, txn 1, txn 2} x 2 groups"""
    src = "v0 = [a00, a01, a02]\nv1 = [a10, a11]  # pyrefact: ignore\n"
    meta = [(0, 21, False, src[:21]), (21, len(src), True, src[21:])]
    ranges = [(6, 9), (6, 14), (11, 14), (11, 11), (9, 9), (16, 19), (27, 30)]
    opts = [(s, e, t) for (s, e) in ranges for t in (None, 1, 2)]
    n = 0
    for k in (1, 2, 3):
        for combo in itertools.product(opts, repeat=k):
            for split in range(k + 1):
                ys = [[s, e, f"M{i}x", t] for i, (s, e, t) in enumerate(combo)]
                yield src, meta, [ys[:split], ys[split:]]
                n += 1
                if n >= limit:
                    return


def suites(ctx):
    common.import_pyrefact()
    out = []
    # corpus of past disagreements first
    s0 = Suite("sched-corpus")
    corpus = []
    p = common.CORPUS / "C10.jsonl"
    if p.exists():
        for line in p.read_text().splitlines():
            d = json.loads(line)
            corpus.append((d["src"], [tuple(m) for m in d["meta"]], d["groups"]))
    run_cases(ctx, corpus, s0)
    s0.note = "minimised past disagreements / seeded-change witnesses"
    out.append(s0)

    s1 = Suite("sched-random")
    r = ctx.rng("sched")
    cases = [gen_case(r) for _ in range(ctx.n(8000, 40000))]
    run_cases(ctx, cases, s1)
    s1.note = ("random marker sources (1-4 lines, 20% ignored), 1-3 rule groups, 0-5 yields each: insertions, token spans, "
               "partial tokens, cross-line ranges, deletions, 15% re-yields (duplicates), 8% invalid replacements; "
               "non-trivial = some but not all yields accepted; compared: _schedule_rewrites list and chain(max_iter=1) text")
    out.append(s1)

    s2 = Suite("sched-exhaustive")
    run_cases(ctx, list(exhaustive_cases(ctx.n(6000, 60000))), s2)
    s2.note = "enumeration of <=3 yields over 7 fixed ranges x {default,1,2} transaction x split into 2 groups (prefix of the enumeration in the quick tier)"
    out.append(s2)

    out.append(fixloop_suite(ctx))
    out.append(oracle_suite(ctx, cases[: ctx.n(1500, 5000)]))
    return out


def fixloop_suite(ctx):
    """`processing.fix` / `chain` iteration and history: abstract states 0..n-1, pass = next[cur]."""
    from pyrefact import core, processing

    s = Suite("fixloop")
    r = ctx.rng("fixloop")
    reqs, cfgs = [], []
    for _ in range(ctx.n(600, 2000)):
        n = r.randint(1, 5)
        nxt = [r.randrange(n) for _ in range(n)]
        init = r.randrange(n)
        m = r.randint(0, 6)
        which = r.choice(["fix", "chain"])
        cfgs.append((n, nxt, init, m, which))
        reqs.append({"suite": "fixloop", "next": nxt, "init": init, "max_iter": m})
    answers = ctx.driver.ask(reqs)
    for (n, nxt, init, m, which), ans in zip(cfgs, answers):
        s.cases += 1

        def rule(source, nxt=nxt):
            cur = int(source.split("=")[1])
            if nxt[cur] != cur:
                yield core.Range(4, len(source) - 1), str(nxt[cur])

        rule.__name__ = "rule"
        src = f"x = {init}\n"
        f = processing.fix(rule, max_iter=m) if which == "fix" else processing.chain([rule], max_iter=m)
        real = int(f(src).split("=")[1])
        s.count(which)
        if ans.get("state") != real:
            s.disagreements.append({"next": nxt, "init": init, "max_iter": m, "which": which, "model": ans, "real": real, "what": "fix/chain loop result differs"})
        if m >= 2 and len(set(nxt)) > 1:
            s.nt([nxt, init, m, which])
        if len(s.samples) < 1 and m >= 3:
            s.samples.append({"suite": "fixloop", "next": nxt, "init": init, "max_iter": m, "which": which, "result": real})
    s.note = "random functional graphs on <=5 texts, max_iter 0..6, through processing.fix and processing.chain; non-trivial = max_iter>=2 and non-constant pass"
    return s


def oracle_suite(ctx, cases):
    """The property's clauses evaluated directly on the real one-pass output (support for the search; also run
    unconditionally on a slice)."""
    s = Suite("sched-oracle", kind="oracle")
    for (src, meta, groups) in cases:
        s.cases += 1
        try:
            out = real_pass(src, groups)
        except Exception as ex:
            s.disagreements.append({"src": src, "groups": groups, "what": f"real code raised {ex!r}"})
            continue
        why = oracle(src, meta, groups, out)
        if why:
            s.disagreements.append({"src": src, "meta": meta, "groups": groups, "out": out, "what": why})
        if out != src:
            s.nt([src, groups])
    s.note = "atomicity / non-overlap / ignored-line / drop-reason / rollback clauses judged on the output of processing.chain(max_iter=1), no model involved; non-trivial = text changed"
    return s


# ----------------------------------------------------------------------------------------------- search / replay

def shrink(src, meta, groups, pred):
    changed = True
    while changed:
        changed = False
        for gi in range(len(groups)):
            for yi in range(len(groups[gi])):
                g2 = [list(g) for g in groups]
                del g2[gi][yi]
                if pred(src, meta, g2):
                    groups, changed = g2, True
                    break
            if changed:
                break
    return groups


def search(ctx, breaks):
    common.import_pyrefact()
    found = []

    def fails(src, meta, groups):
        try:
            return oracle(src, meta, groups, real_pass(src, groups)) is not None
        except Exception:
            return True

    seeds = []
    for b in breaks:
        for d in b.get("inputs", []):
            if "groups" in d and "src" in d:
                seeds.append(d)
    r = ctx.rng("search")
    tried = 0
    for d in seeds[:30]:
        src, groups = d["src"], d["groups"]
        meta = d.get("meta") or remeta(src)
        tried += 1
        if fails(src, meta, groups):
            g = shrink(src, meta, groups, fails)
            found.append({"src": src, "meta": meta, "groups": g, "what": oracle(src, meta, g, real_pass(src, g))})
            if len(found) >= 3:
                return found
    # neighbourhood: fresh conflict configurations
    for case in itertools.chain(exhaustive_cases(20000), (gen_case(r) for _ in range(20000))):
        src, meta, groups = case
        tried += 1
        if fails(src, meta, groups):
            g = shrink(src, meta, groups, fails)
            found.append({"src": src, "meta": meta, "groups": g, "what": oracle(src, meta, g, real_pass(src, g))})
            break
    ctx.log(f"search tried {tried} configurations, found {len(found)}")
    return found


def remeta(src):
    meta, pos = [], 0
    for line in src.splitlines(keepends=True):
        meta.append((pos, pos + len(line), bool(IGNORE_RE.search(line)), line))
        pos += len(line)
    return meta


def replay(ctx, inp):
    common.import_pyrefact()
    meta = inp.get("meta") or remeta(inp["src"])
    why = oracle(inp["src"], [tuple(m) for m in meta], inp["groups"], real_pass(inp["src"], inp["groups"]))
    print("oracle:", why)
    return why is not None
