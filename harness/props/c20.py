"""C20 - opt-out comments are honoured.
Proof: scheduler / pass / orchestration theorems (Props/C20.lean).  Ties: `lines` (core.has_ignore_comment and the skip-file
test vs the Lines model, on texts with every kind of line break and comment spelling), the scheduler suites with ignored
lines (shared with C10).  Oracles on the real code: annotate-a-line (the annotated physical line must occur verbatim in
format_code's output) and skip-file through the library, file and stdin entry points."""
from __future__ import annotations

import importlib
import io
import os
import re
import subprocess
import sys
import tempfile
from pathlib import Path

import ast

import common
import oracles
import sweep
from common import Suite
from props import c10

TRUSTED = ["C20: the direct editing path (alter_code / remove_nodes / _insert_nodes) and the raw-text stages are outside the scheduler theorems; they are examined by the annotate-a-line oracle (known findings listed)"]
ASSUMPTIONS = ["skip-file comment = the literal text '# pyrefact: skip_file' (as format_code tests it); ignore comment = #\\s*pyrefact\\s*:\\s*(skip_file|ignore)"]

BREAKS = ["\n", "\n", "\n", "\r\n", "\r", "\x0c", "\x0b", "\x1c", "\x85", "\u2028", "\u2029"]
PIECES = ["x = 1", "values = list(", "foo(a, b)", ")", "  y = [", "# pyrefact: ignore", "#pyrefact:ignore", "# pyrefact : skip_file",
          "#\tpyrefact:\tignore", "# pyrefact ignore", "# pyrefact:\u00a0ignore", "s = '# pyrefact: ignore'", "#  pyrefact  :  ignored", "# pyrefact: skip_file",
          "é = 'ü'", "", "   ", "# PYREFACT: ignore", "#\u2003pyrefact: ignore", "# pyrefact:\x1fignore", "z  # pyrefact:ignore  # more"]


def gen_text(r):
    out = []
    for _ in range(r.randint(1, 6)):
        line = r.choice(PIECES)
        if r.random() < 0.4:
            line = r.choice(PIECES[:5]) + "  " + r.choice(PIECES[5:])
        out.append(line + r.choice(BREAKS))
    if r.random() < 0.3:
        out[-1] = out[-1].rstrip("\r\n\x0c\x0b\x1c\x85\u2028\u2029")
    return "".join(out)


def lines_suite(ctx):
    from pyrefact import core

    s = Suite("lines")
    r = ctx.rng("lines")
    cases = []
    for _ in range(ctx.n(600, 12000)):
        t = gen_text(r)
        n = len(t)
        ranges = []
        for _ in range(6):
            a = r.randint(0, n)
            b = r.choice([a, a, min(n, a + r.randint(1, 12)), n])
            ranges.append([a, b])
        cases.append((t, ranges))
    answers = ctx.driver.ask([{"suite": "lines", "src": t, "ranges": rs} for t, rs in cases])
    for (t, rs), ans in zip(cases, answers):
        s.cases += 1
        if "ignored" not in ans:
            s.disagreements.append({"src": t, "what": "driver refused", "model": ans})
            continue
        real = [bool(core.has_ignore_comment(t, core.Range(a, b))) for a, b in rs]
        skip = bool(re.findall(r"# pyrefact: skip_file", t))
        if real != ans["ignored"]:
            s.disagreements.append({"src": t, "ranges": rs, "model": ans["ignored"], "real": real, "what": "has_ignore_comment differs from the model"})
        if skip != ans["skipfile"]:
            s.disagreements.append({"src": t, "model": ans["skipfile"], "real": skip, "what": "skip-file test differs"})
        if any(real) and not all(real):
            s.nt(t)
        s.count("some-ignored" if any(real) else "none")
    s.samples.append({"suite": "lines", "src": "values = list(  # pyrefact: ignore\n    1)\n", "range": [0, 5], "ignored": True})
    s.note = ("texts of 1-6 lines from code / comment pieces (8 spellings of the comment, near misses, comment text inside a string, bracket-opening "
              "lines) with all 10 str.splitlines separators, CRLF, no final newline; 6 ranges each (empty, short, to the end); compared: "
              "core.has_ignore_comment and the skip-file regex; non-trivial = some but not all ranges ignored")
    return s


IGNORE = "  # pyrefact: ignore"


SPELLINGS = ["  # pyrefact: ignore", "  #pyrefact: ignore", "  # pyrefact : ignore", "  #  pyrefact:ignore", "  # pyrefact: ignore  and some more text"]  # (no tabs: the first thing format_code does is expand them)
# programs on which the rules of the direct-editing path (alter_code / _replace_nodes: import un-stacking and sorting, early continue,
# overused constants, moving code in front of loops) have something to do
ALTER_PROGRAMS = [
    "import os, abc\nimport sys, json\nprint(os.sep, abc.ABC, sys.argv, json.dumps(1))\n",
    "import sys\nimport os\nfrom b import z\nfrom a import y\nprint(os, sys, z, y)\n",
    "def f(xs):\n    out = []\n    for x in xs:\n        if x > 1:\n            a = x + 1\n            b = a * 2\n            c = b - 3\n            d = c + a\n            e = d * b\n            out.append(e + c)\n    return out\n",
    "def g(n):\n    for i in range(n):\n        k = 10 ** 6\n        print(i + k)\n",
    "def h():\n    return ['a-long-literal-number-one', 'a-long-literal-number-one', 'a-long-literal-number-one', 'a-long-literal-number-one', 'a-long-literal-number-one']\n",
    "import os\nimport os\nimport os.path\nprint(os.path.sep)\n",
    # the other rules that edit the text directly (found when the C20 baseline was audited rule by rule)
    "def helper_one(v):\n    w = v + 1\n    return w * 2\n\n\ndef helper_two(q):\n    z = q + 1\n    return z * 2\n\n\ndef f(x, y):\n    return helper_one(x) + helper_two(y)\n",
    "def get(uri):\n    connection = sqlite3.connect(uri)\n    cursor = connection.cursor()\n    cursor.execute('SELECT 1')\n    rows = [r for r in cursor.fetchall()]\n    return rows\n",
    "def f(x):\n    if x > 1:\n        print(1)\n        print(2)\n        print(3)\n        return 5\n    print(4)\n    return 7\n",
    "def f(x, y):\n    if x > 1:\n        print('a', x + 1)\n        return x * 2 + y\n    else:\n        print('a', y + 1)\n        return y * 2 + x\n",
    "class A:\n    def m(self, v):\n        return v + 1\n\n    @staticmethod\n    def s(v):\n        return v * 2\n\n\nprint(A().m(1), A.s(2))\n",
    "def f(x):\n    y = x + 1\n    return y\n\n\ndef g(x):\n    if x:\n        return True\n    else:\n        return False\n",
    "def f(x):\n    if x > 1:\n        print(1)\n        print(2)\n        print(3)\n        return 5\n    return 7\n",
    "def f(x):\n    if x:\n        print(1)\n        print(9)\n    else:\n        print(2)\n        print(9)\n    return x\n",
    "def f(x):\n    if False:\n        print(1)\n    else:\n        print(2)\n    if x:\n        pass\n    elif False:\n        print(3)\n    else:\n        print(4)\n",
    "def f():\n    import os\n    return os.sep\n\n\nimport json\nimport sys\nprint(sys.argv)\n",
    "def f(x):\n    if x > 3:\n        return True\n    return False\n",
    "import sys\nimport os\nimport abc\nprint(sys.platform, os.sep, abc.ABC)\n",
]


def annotate_cases(ctx, n_prog):
    items = sweep.pick(sweep.generated_corpus(), ctx, n_prog) + sweep.pick(sweep.example_corpus(), ctx, n_prog)

    r = ctx.rng("annotate")
    cases = []
    for (sha, src, fam) in items:
        lines = src.split("\n")
        cand = [i for i, l in enumerate(lines) if l.strip() and not l.strip().startswith("#") and '"""' not in l and "'''" not in l and not l.rstrip().endswith("\\")]
        if not cand:
            continue
        fixed = sorted({cand[0], cand[len(cand) // 2], cand[-1]})  # the quick picks are a subset of the thorough ones (baseline covers both)
        picks = cand if (ctx.thorough and len(cand) <= 12) or fam == "direct-editing" else fixed
        for i in picks:
            new = list(lines)
            # the spelling of the comment is a function of the case (every accepted spelling; the canonical one elsewhere in the file or not)
            new[i] = new[i] + SPELLINGS[(i + int(sha[:4], 16)) % len(SPELLINGS)]
            cases.append((sha, i, "\n".join(new), new[i]))
    # characters that str.splitlines() takes for line ends and the tokenizer does not, ABOVE the annotated line (page breaks between
    # definitions, Unicode separators inside docstrings / strings / comments): every line-based look-up below them has to agree on the line table
    headers = ["# page\x0c break\n", "\x0c\n", '"""Doc\u2028string"""\n', "s = 'a\x85b'  # c\x1cd\n", "# \u2029\n\n\n"]
    bodies = ["def f(y):\n    return y == None\n\n\nprint(f(1))\n", "import sys\nimport os\nprint(sys.platform != '', os.sep != '')\n",
              "def g(xs):\n    out = []\n    for x in xs:\n        out.append(x + 1)\n    return out\n\n\nprint(g([1]))\n", "def h(x):\n    if x:\n        return True\n    else:\n        return False\n\n\nprint(h(1))\n"]
    for h in headers:
        for b in bodies:
            prog = h + b
            lines = prog.split("\n")
            for i, l in enumerate(lines):
                if i < h.count("\n") or not l.strip() or l.strip().startswith("#"):
                    continue
                new = list(lines)
                new[i] = new[i] + SPELLINGS[0]
                src = "\n".join(new)
                try:
                    compile(src, "<sep>", "exec")
                except (SyntaxError, ValueError):
                    continue
                cases.append((oracles.sha(prog), i, src, new[i]))
    return cases


def task_annotated(args):
    src, line = args
    import ast

    try:
        ast.parse(src)
    except SyntaxError:
        return {"status": "skip"}
    st, out = oracles.task_format((src, {}, "format"))
    if st != "ok":
        return {"status": st}
    return {"status": "ok", "verbatim": line in out.split("\n"), "out": out}


def annotate_suite(ctx):
    s = Suite("annotate-a-line", kind="oracle")
    base = sweep.baseline("C20")
    cases = [c for c in annotate_cases(ctx, 60) if sweep.key(c[0], {}, f"line{c[1]}") not in base]
    results = oracles.pmap(task_annotated, [(src, line) for (_sha, _i, src, line) in cases])
    for (sha, i, src, line), res in zip(cases, results):
        s.cases += 1
        if res["status"] != "ok":
            continue
        s.nt([sha, i])
        if not res["verbatim"]:
            s.disagreements.append({"sha": sha, "line_no": i, "src": src, "line": line, "out": res["out"],
                                    "what": f"the line {line.strip()!r} carries an ignore comment but does not occur verbatim in format_code's output"})
    s.samples.append({"suite": s.name, "annotation": IGNORE})
    s.note = "corpus programs with one physical line annotated '# pyrefact: ignore' (any statement line, nested or not); oracle: that line occurs verbatim among the output lines"
    return s


DIRECT_RULES = ["fixes.fix_duplicate_imports", "fixes.sort_imports", "fixes.move_before_loop", "fixes.early_continue", "abstractions.overused_constant", "fixes.remove_unused_imports",
                "fixes.move_imports_to_toplevel", "fixes.fix_import_spacing", "fixes.swap_if_else", "fixes.remove_redundant_else", "fixes.remove_dead_ifs", "fixes.align_variable_names_with_convention",
                "fixes.remove_duplicate_functions", "fixes.missing_context_manager", "abstractions.simplify_if_control_flow", "object_oriented.move_staticmethod_static_scope",
                "object_oriented.remove_unused_self_cls", "fixes.simplify_assign_immediate_return", "fixes.fix_if_return", "fixes.breakout_common_code_in_ifs"]


def toplevel_names(src):
    """names bound by the import statements at module level"""
    try:
        tree = ast.parse(src)
    except SyntaxError:
        return set()
    out = set()
    for node in tree.body:
        if isinstance(node, (ast.Import, ast.ImportFrom)):
            out |= {a.asname or a.name.split(".")[0] for a in node.names}
    return out


def loaded_names(src):
    try:
        return {n.id for n in ast.walk(ast.parse(src)) if isinstance(n, ast.Name) and isinstance(n.ctx, ast.Load)}
    except SyntaxError:
        return set()


def direct_suite(ctx):
    """the rules that edit the text directly (alter_code / _replace_nodes / text surgery), one by one, on programs where they fire, with every
    line annotated in every accepted spelling"""
    s = Suite("direct-editing", kind="oracle")
    known_rules = {k["witness"].get("rule") for k in common.load_known("C20") if k["kind"] == "finding"}
    for prog in ALTER_PROGRAMS:
        lines = prog.split("\n")
        for i, l in enumerate(lines):
            if not l.strip():
                continue
            for sp in SPELLINGS:
                new = list(lines)
                new[i] = new[i] + sp
                src = "\n".join(new)
                try:
                    compile(src, "<annotated>", "exec")
                except SyntaxError:
                    continue
                for rule_name in DIRECT_RULES:
                    s.cases += 1
                    st, out = oracles.task_format((src, {}, "rule:" + rule_name))  # passes preserve / root_is_static where the rule requires them
                    if st != "ok":
                        s.count(rule_name + ":" + st)
                        continue
                    if out == src:
                        continue
                    s.nt([rule_name, src])
                    s.count(rule_name)
                    if new[i] not in out.split("\n"):
                        s.disagreements.append({"rule": rule_name, "src": src, "line": new[i], "line_no": i, "out": out,
                                                "what": f"{rule_name}: the line {new[i].strip()!r} carries an ignore comment but does not occur verbatim in the rule's output"})
                    else:
                        lost = sorted((toplevel_names(src) - toplevel_names(out)) & loaded_names(out)) if "import" in rule_name else []
                        if lost:  # the opted-out line blocked one half of an edit that only makes sense as a whole
                            s.disagreements.append({"rule": rule_name + ":half-applied", "src": src, "line": new[i], "line_no": i, "out": out,
                                                    "what": f"{rule_name}: next to the opted-out line {new[i].strip()!r} the rule applied half of an edit: {lost} still used but no longer imported at module level"})
    s.note = ("18 programs on which the direct-editing rules fire x every line annotated x 5 accepted spellings of the ignore comment x 20 rules applied in isolation: "
              "the annotated line occurs verbatim in the rule's output; histogram = how often each rule changed the text")
    return s


def skipfile_suite(ctx):
    main = importlib.import_module("pyrefact.main")
    import pyrefact

    s = Suite("skip-file", kind="oracle")
    r = ctx.rng("skipfile")
    bodies = [src for (_sha, src, _fam) in sweep.pick(sweep.generated_corpus(), ctx, 12)]
    bodies += ["import os\nx = [ 1,2 ]\n", "def f():\n\treturn 1\n", "s = 'a\tb'   \n\n\n\n\n\nprint(s)\n", "x=1\r\ny=2\r\n", "class A:\n\tdef m(self):\n\t\treturn '\t'\n"]
    tmp = Path(tempfile.mkdtemp(prefix="c20_"))
    try:
        for body in bodies:
            where = r.choice(["top", "bottom", "middle"])
            lines = body.split("\n")
            k = {"top": 0, "bottom": len(lines), "middle": len(lines) // 2}[where]
            indent = ""
            src = "\n".join(lines[:k] + [indent + "# pyrefact: skip_file"] + lines[k:])
            s.cases += 1
            s.nt(src)
            for o in ({}, {"safe": True}, {"keep_imports": True}):
                out = pyrefact.format_code(src, **o)
                if out != src:
                    s.disagreements.append({"src": src, "opts": o, "out": out, "what": "format_code changed a text containing '# pyrefact: skip_file'"})
                    break
            p = tmp / "m.py"
            p.write_bytes(src.encode())
            mt = p.stat().st_mtime_ns
            main.format_file(p)
            if p.read_bytes() != src.encode() or p.stat().st_mtime_ns != mt:
                s.disagreements.append({"src": src, "what": "format_file rewrote a file containing the skip-file comment"})
        # stdin mode echoes the text (print adds one newline)
        src = "import os\nx = [ 1,2 ]\n\ty = 2  # pyrefact: skip_file\n"
        out = subprocess.run([sys.executable, "-m", "pyrefact", "--from-stdin"], input=src, capture_output=True, text=True, cwd=str(common.REPO), timeout=120)
        s.cases += 1
        if out.stdout != src + "\n":
            s.disagreements.append({"src": src, "out": out.stdout, "what": "stdin mode did not echo a skip-file text unchanged"})
    finally:
        for f in tmp.iterdir():
            f.unlink()
        tmp.rmdir()
    s.samples.append({"suite": s.name, "entry_points": ["format_code x3 option sets", "format_file (bytes + mtime)", "python -m pyrefact --from-stdin"]})
    s.note = "programs (incl. tabs, CR line ends, trailing blanks, blank runs) with the skip-file comment at the top / middle / bottom; all entry points must return them byte for byte"
    return s


def suites(ctx):
    common.import_pyrefact()
    sched = Suite("sched-ignored")
    r = ctx.rng("sched-ignored")
    c10.run_cases(ctx, [c10.gen_case(r) for _ in range(ctx.n(500, 8000))], sched)
    sched.note = "C10's scheduler correspondence (22% of the lines carry an ignore comment in 8 spellings)"
    return [lines_suite(ctx), sched, skipfile_suite(ctx), annotate_suite(ctx), direct_suite(ctx)]


def match_known(d, known):
    for k in known:
        w = k.get("witness", {}) if k["kind"] == "finding" else {}
        if w and "rule" in d and "rule" in w and w["rule"] == d["rule"]:
            return k
        if w and w.get("sha") == d.get("sha") and w.get("line_no") == d.get("line_no"):
            return k
    return None


def replay_witness(ctx, kf):
    common.import_pyrefact()
    w = kf["witness"]
    if "rule" in w and "src" in w:
        out = oracles.resolve_rule(w["rule"])(w["src"])
        if w["line"] not in out.split("\n"):
            return True  # else: the rule may need several passes, replay the whole formatter
    if "src" in w and "line" in w:
        res = task_annotated((w["src"], w["line"]))
        return res["status"] == "ok" and not res["verbatim"]
    return None


def search(ctx, breaks):
    common.import_pyrefact()
    found = []
    for b in breaks:
        for d in b.get("inputs", []):
            if "src" in d and "ranges" in d:
                # a range the real function no longer reports as ignored although its line carries the comment
                from pyrefact import core
                pos = 0
                for line in d["src"].splitlines(keepends=True):
                    if re.search(r"#\s*pyrefact\s*:\s*(skip_file|ignore)", line):
                        for (a, e) in d["ranges"]:
                            if a < pos + len(line) and pos < e and not core.has_ignore_comment(d["src"], core.Range(a, e)):
                                found.append({"src": d["src"], "range": [a, e], "what": f"has_ignore_comment is False for range {(a, e)} although it overlaps the annotated line {line!r}"})
                    pos += len(line)
            if found:
                break
    if not found:
        s = annotate_suite(ctx)
        found = s.disagreements[:3]
    return found[:5]


def replay(ctx, inp):
    common.import_pyrefact()
    from pyrefact import core

    if "range" in inp:
        v = core.has_ignore_comment(inp["src"], core.Range(*inp["range"]))
        print("has_ignore_comment:", v)
        return not v
    if "line" in inp:
        res = task_annotated((inp["src"], inp["line"]))
        return res["status"] == "ok" and not res["verbatim"]
    import pyrefact
    return pyrefact.format_code(inp["src"], **inp.get("opts", {})) != inp["src"]
