"""C05 - formatting is a pure function of its input (history independence).

Proof: the cache protocol (lean/PyrefactModel/Cache.lean) is history independent under the hypothesis RulePure
(no rule changes the tree it got from the cache).  Tie: (1) suite `lru`: the LRU model vs the hit/miss behaviour of the
real `core.parse` cache; (2) suite `purity`: the hypothesis itself, checked for every pipeline rule on the corpus by
comparing the cached tree with a fresh parse after each call (the harness only observes `core.parse`, nothing in /repo
is instrumented); (3) oracle `twice` / `fresh-process`: f(x) after a history == f(x) in a new interpreter."""
from __future__ import annotations

import ast
import json
import subprocess
import sys

import common
import oracles
import sweep
from common import Suite

TRUSTED = ["C05: Python object aliasing is modelled as 'the rule hands back the tree that is left in the cache slot'",
           "C05: functools.lru_cache is the LRU of the model (checked by the lru suite on hit/miss sequences)"]
ASSUMPTIONS = ["rule purity is a checked assumption, not a theorem: it is tested for every rule on the corpus slice of each run"]


def lru_suite(ctx):
    from pyrefact import core

    s = Suite("lru")
    r = ctx.rng("lru")
    info = core.parse.cache_info()
    cap = info.maxsize
    for _ in range(ctx.n(6, 60)):
        nkeys = r.choice([5, 60, 130, 250])
        keys = [r.randrange(nkeys) for _ in range(r.randint(50, 600))]
        core.parse.cache_clear()
        hits = []
        for k in keys:
            before = core.parse.cache_info().hits
            core.parse(f"v{k} = {k}\n")
            hits.append(core.parse.cache_info().hits > before)
        size = core.parse.cache_info().currsize
        ans = ctx.driver.ask([{"suite": "lru", "cap": cap, "keys": keys}])[0]
        s.cases += 1
        s.count(f"keys={nkeys}")
        if ans.get("hits") != hits or ans.get("size") != size:
            first = next((i for i, (a, b) in enumerate(zip(ans.get("hits", []), hits)) if a != b), None)
            s.disagreements.append({"cap": cap, "keys": keys[:50], "first_diff": first, "what": "hit/miss sequence of core.parse differs from the LRU model"})
        if nkeys > cap:
            s.nt(keys)
    core.parse.cache_clear()
    s.samples.append({"suite": "lru", "maxsize": cap})
    s.note = "random key sequences over 5..250 distinct sources against core.parse (maxsize read from cache_info): hit/miss per call and final size; non-trivial = more keys than capacity (evictions)"
    return s


class _Recorder:
    """wraps a cached function of pyrefact inside the worker: every object the cache hands out is remembered together
    with a dump taken the first time it is seen (= when it was created), so that a later change of the cached object
    is visible"""

    def __init__(self, fn, dump):
        self.fn, self.dump, self.seen = fn, dump, {}

    def __call__(self, *a, **k):
        res = self.fn(*a, **k)
        if id(res) not in self.seen:
            try:
                self.seen[id(res)] = (res, self.dump(res))
            except Exception:  # noqa: BLE001
                pass
        return res

    def __getattr__(self, name):  # cache_info, cache_clear, __wrapped__
        return getattr(self.fn, name)

    def changed(self):
        out = []
        for (obj, snap) in self.seen.values():
            try:
                if self.dump(obj) != snap:
                    out.append(snap[:80])
            except Exception:  # noqa: BLE001
                out.append("undumpable")
        return out


def _dump_any(x):
    if isinstance(x, ast.AST):
        return ast.dump(x, include_attributes=True)
    if isinstance(x, (list, tuple, set, frozenset)):
        return repr([_dump_any(y) for y in x])
    if hasattr(x, "_asdict"):
        return repr({k: _dump_any(v) for k, v in x._asdict().items()})
    return repr(x)


def _canon(val):
    if isinstance(val, (set, frozenset)):
        return sorted(repr(x) for x in val)
    if isinstance(val, dict):
        return sorted((repr(k), repr(v)) for k, v in val.items())
    return [repr(x) for x in val]


def module_state():
    """every mutable container bound at module level (or as a class attribute) in a pyrefact module, in canonical form"""
    import collections

    out = {}
    for name, mod in list(sys.modules.items()):
        if mod is None or not (name == "pyrefact" or name.startswith("pyrefact.")):
            continue
        for attr, val in list(vars(mod).items()):
            if attr.startswith("__") or isinstance(val, _Recorder):
                continue
            if isinstance(val, (dict, set, list, bytearray, collections.deque)):
                out[f"{name}.{attr}"] = _canon(val)
            elif isinstance(val, type) and getattr(val, "__module__", "") == name:
                for a2, v2 in list(vars(val).items()):
                    if not a2.startswith("__") and isinstance(v2, (dict, set, list)):
                        out[f"{name}.{attr}.{a2}"] = _canon(v2)
    return out


def state_diff(before, after):
    out = []
    for k in sorted(set(before) | set(after)):
        b, a = before.get(k), after.get(k)
        if b != a:
            added = [x for x in (a or []) if x not in (b or [])][:8]
            removed = [x for x in (b or []) if x not in (a or [])][:8]
            out.append({"name": k, "added": added, "removed": removed})
    return out


def task_purity(args):
    """apply each rule to src; after each call every object handed out by pyrefact's caches (parse trees, compiled
    templates, traced origins, line tables) must still equal its dump at creation; a second call must return the same text"""
    src, rules = args
    from pyrefact import core, tracing

    try:
        ast.parse(src)
    except SyntaxError:
        return {"status": "ok", "bad": []}
    recs = {}
    for mod, name in ((core, "parse"), (core, "compile_template"), (core, "_get_line_start_charnos"), (tracing, "trace_origin")):
        fn = getattr(mod, name)
        if not isinstance(fn, _Recorder):
            recs[name] = _Recorder(fn, _dump_any)
            setattr(mod, name, recs[name])
        else:
            recs[name] = fn
    out = []
    state_changes = []
    state = module_state()
    for rule_name in rules:
        rule = oracles.resolve_rule(rule_name)
        for rec in recs.values():
            rec.seen.clear()
        recs["parse"].cache_clear()
        st1, o1 = oracles._guarded(lambda: rule(src), 30)
        after = module_state()
        if after != state:
            state_changes.append((rule_name, state_diff(state, after)))
            state = after
        if st1 != "ok":
            continue
        bad = [(n, c) for n, rec in recs.items() for c in rec.changed()]
        if bad:
            out.append((rule_name, f"an object held by the {bad[0][0]} cache was changed by the call ({bad[0][1][:60]}...)"))
            continue
        st2, o2 = oracles._guarded(lambda: rule(src), 30)
        if st2 == "ok" and o1 != o2:
            out.append((rule_name, "second call on the same input returns a different text"))
    return {"status": "ok", "bad": out, "state": state_changes}


def purity_suite(ctx):
    s = Suite("purity", kind="oracle")
    st = Suite("module-state")
    rules = sweep.rule_names()
    items = sweep.pick(sweep.generated_corpus(), ctx, 60) + sweep.targeted() + [(oracles.sha(x), x, "repo-example") for x in oracles.repo_examples()]
    results = oracles.pmap(task_purity, [(src, rules) for (_sha, src, _fam) in items])
    base = sweep.baseline("C05")
    for (sha, src, fam), res in zip(items, results):
        s.cases += 1
        s.count(fam if fam in ("repo-example", "grammar") else "family")
        s.nt(sha)
        for (rule, why) in res.get("bad", []):
            if sweep.key(sha, {}, rule) in base:
                continue
            s.disagreements.append({"sha": sha, "src": src, "rule": rule, "history": [f"{rule}(src)", f"{rule}(src)"],
                                    "what": f"{rule}: {why}"})
        st.cases += 1
        for (rule, diff) in res.get("state", []):
            st.nt([sha, rule])
            if len(st.disagreements) < 40:
                st.disagreements.append({"sha": sha, "src": src, "rule": rule, "state": diff,
                                         "what": f"{rule} changed module-level state of pyrefact ({', '.join(d['name'] for d in diff[:3])}): the model's rules leave shared state alone (hypothesis RulePure)"})
    st.note = ("same calls: every mutable container bound at module level or as a class attribute in a pyrefact module (dict / set / list / deque) is snapshot before and after each rule call; "
               "the model of C05 (Cache.lean, hypothesis RulePure) has no shared state besides the caches, so any change breaks the correspondence and starts the search for a history on which an output differs; "
               "non-trivial = a call that changed something")
    s.note = (f"every public rule ({len(rules)}) on the targeted corpus, a slice of the generated one and ALL repository examples (the unit-test inputs of every rule): "
              "every object handed out by the parse / compile_template / trace_origin / line-table caches during the call still equals its dump at creation "
              "(recording wrappers inside the worker process; nothing in /repo is instrumented), and a second call returns the same text; non-trivial = every program")
    return [s, st]


FRESH = r"""
import sys, json
sys.path.insert(0, %r)
import warnings; warnings.simplefilter('ignore')
import pyrefact
from pyrefact import logs; logs.set_level(100)
data = json.load(sys.stdin)
out = []
for src, opts in data:
    try:
        out.append(pyrefact.format_code(src, **opts))
    except Exception as e:
        out.append('EXC ' + type(e).__name__)
json.dump(out, sys.stdout)
"""


def task_history(args):
    """format a history of other inputs, then the input under test twice; return both results"""
    history, src, opts = args
    import pyrefact

    for h in history:
        if isinstance(h, list):  # cheap filler: parse many distinct sources (evicts every cache entry)
            from pyrefact import core
            for i in range(h[1]):
                core.parse(f"filler_{h[0]}_{i} = {i}\n")
            continue
        oracles._guarded(lambda: pyrefact.format_code(h, **opts), 60)
    a = oracles._guarded(lambda: pyrefact.format_code(src, **opts), 60)
    b = oracles._guarded(lambda: pyrefact.format_code(src, **opts), 60)
    return {"status": "ok", "first": a, "second": b}


def history_suite(ctx):
    s = Suite("history", kind="oracle")
    r = ctx.rng("history")
    gen = sweep.generated_corpus()
    ex = [(oracles.sha(x), x, "repo-example") for x in oracles.repo_examples() if oracles.runnable(x)]
    pool = gen + ex + sweep.generated_corpus2() * 3
    n = ctx.n(64, 400)
    cases = []
    for _ in range(n):
        sha, src, fam = r.choice(pool)
        k = r.choice([0, 1, 3, 6])
        hist = [r.choice(pool)[1] for _ in range(k)]
        if r.random() < 0.3:
            hist.append(src)  # the same input earlier in the history
        if r.random() < 0.35:
            hist = [src, ["fill", 130]] + hist[:1]  # x, then more than a cache-full of other sources, then x again
        opts = r.choice([{}, {"safe": True}])
        cases.append((sha, src, fam, hist, opts))
    # every second-wave family once with "x, more than a cache-full of other sources, x again"
    seen_fam = set()
    for (sha, src, fam) in sweep.generated_corpus2():
        if fam not in seen_fam:
            seen_fam.add(fam)
            cases.append((sha, src, fam, [src, ["fill", 130]], {}))
    base = sweep.baseline("C05")
    results = oracles.pmap(task_history, [(h, src, o) for (_sha, src, _fam, h, o) in cases], isolate=True)
    # the same inputs in fresh interpreters (one interpreter per input would be exact; each fresh process formats ONE input)
    fresh_in = [(src, o) for (_sha, src, _fam, _h, o) in cases]
    fresh = fresh_results(fresh_in)
    for (sha, src, fam, hist, o), res, fr in zip(cases, results, fresh):
        s.cases += 1
        if res["first"][0] != "ok":
            continue
        s.nt([sha, len(hist)])
        if sweep.key(sha, o, "history") in base:
            continue
        if res["first"] != res["second"]:
            s.disagreements.append({"sha": sha, "src": src, "opts": o, "history": hist + [src],
                                    "what": "format_code(x) called twice in a row returns two different texts"})
        elif fr is not None and not fr.startswith("EXC ") and res["first"][1] != fr:
            # process-to-process nondeterminism (C06) is not history dependence: two fresh interpreters must agree first
            fr2 = fresh_results([(src, o)])[0]
            if fr2 != fr:
                s.count("nondeterministic-across-processes (C06)")
                continue
            s.disagreements.append({"sha": sha, "src": src, "opts": o, "history": hist,
                                    "what": f"format_code(x) after a history of {len(hist)} calls differs from a fresh process"})
    s.note = "format_code(x) after random histories (0-7 earlier calls, sometimes x itself) vs a second call and vs a fresh interpreter per input; non-trivial = formatted without error"
    return s


def fresh_results(pairs):
    """each input formatted in its own fresh interpreter (16 at a time)"""
    import concurrent.futures as cf

    def one(p):
        try:
            out = subprocess.run([sys.executable, "-c", FRESH % str(common.REPO)], input=json.dumps([p]), capture_output=True,
                                 text=True, timeout=180)
            return json.loads(out.stdout)[0]
        except Exception:  # noqa: BLE001
            return None
    with cf.ThreadPoolExecutor(16) as ex:
        return list(ex.map(one, pairs))


def suites(ctx):
    common.import_pyrefact()
    return [lru_suite(ctx)] + purity_suite(ctx) + [history_suite(ctx)]


def task_after(args):
    """apply rule(src) (the call that changed shared state), then format every probe in that process"""
    src, rule_name, probes = args
    import pyrefact

    oracles._guarded(lambda: oracles.resolve_rule(rule_name)(src), 60)
    return {"status": "ok", "out": [oracles._guarded(lambda p=p: pyrefact.format_code(p), 60) for p in probes]}


def search(ctx, breaks):
    """a rule changed module-level state: look for an input whose formatting after that call differs from a fresh process"""
    common.import_pyrefact()
    import re

    found = []
    for b in breaks:
        if b.get("suite") != "module-state":
            continue
        for d in b.get("inputs", [])[:6]:
            probes = [src for (_sha, src, _f) in sweep.pick(sweep.generated_corpus2(), ctx, 24)] + [d["src"]]
            # strings that entered a module-level collection, used as identifiers in small programs
            for ch in d.get("state", []):
                for item in ch.get("added", []) + ch.get("removed", []):
                    for name in re.findall(r"[A-Za-z_][A-Za-z_0-9]*", str(item))[:4]:
                        probes.append(f"def {name}(*a):\n    print('called', a)\n\n\n{name}(1)\n{name}('a', 'b')\nprint('end')\n")
                        probes.append(f"import os\nfrom os.path import join as {name}\n\n\ndef work(x):\n    {name}(x)\n    return x\n\n\nprint(work('a'))\n")
            probes = list(dict.fromkeys(probes))
            res = oracles.pmap(task_after, [(d["src"], d["rule"], probes)], isolate=True)[0]
            fresh = fresh_results([(p, {}) for p in probes])
            for p, got, fr in zip(probes, res.get("out", []), fresh):
                if fr is None or fr.startswith("EXC ") or got[0] != "ok":
                    continue
                if got[1] != fr:
                    found.append({"src": p, "history": [f"{d['rule']}({d['src']!r})", "format_code(src)"], "after_history": got[1], "fresh": fr, "state": d.get("state"),
                                  "rule_history": [d["rule"], d["src"]],
                                  "what": f"format_code(x) after {d['rule']} on another input differs from a fresh process ({d['rule']} changed {', '.join(c['name'] for c in d.get('state', [])[:2])})"})
                    break
            if found:
                break
    return found


def match_known(d, known):
    for k in known:
        w = k.get("witness", {}) if k["kind"] == "finding" else {}
        if w and w.get("rule") == d.get("rule") and w.get("sha") == d.get("sha"):
            return k
    return None


def replay(ctx, inp):
    common.import_pyrefact()
    if "rule_history" in inp:
        res = oracles.pmap(task_after, [(inp["rule_history"][1], inp["rule_history"][0], [inp["src"]])], isolate=True)[0]
        fr = fresh_results([(inp["src"], {})])[0]
        print(res["out"][0][0], res["out"][0][1] == fr)
        return res["out"][0][1] != fr
    if "rule" in inp:
        res = task_purity((inp["src"], [inp["rule"]]))
        print(res)
        return bool(res["bad"])
    res = task_history((inp.get("history", [])[:-1], inp["src"], inp.get("opts", {})))
    print(res["first"][0], res["first"] == res["second"])
    return res["first"] != res["second"]
