#!/venv/bin/python
"""Entry point of every registered check.

    vcheck.py check C10 --tier quick|thorough     (env VERIF_SEED=<int>)
    vcheck.py replay <file>
    vcheck.py setup                                (regenerate tables, build everything)

Steps of a check (DESIGN.md section 3.1): regenerate the tables from the imported /repo modules, grep the
Lean sources for forbidden constructs, `lake build` the property's theorem module and the driver, audit the
axioms of every property theorem, run the property's correspondence suites against the real code, replay the
known-finding witnesses, and - if a proof obligation or a correspondence broke - search the real code for a
concrete failing input.  Exit 0 / 1 (+ VIOLATION line) / 2 (infrastructure)."""
from __future__ import annotations

import argparse
import importlib
import json
import os
import sys
import time
import traceback
from pathlib import Path

sys.path.insert(0, str(Path(__file__).resolve().parent))
import common  # noqa: E402
from common import Suite  # noqa: E402


class Ctx:
    def __init__(self, prop, tier, seed):
        self.prop = prop
        self.tier = tier
        self.seed = seed
        self.thorough = tier == "thorough"
        self.driver = common.Driver()
        self.t0 = time.time()
        self.log_lines = []

    def rng(self, label):
        return common.rng_for(self.seed, f"{self.prop}:{label}")

    def n(self, quick, thorough):
        return thorough if self.thorough else quick

    def log(self, *a):
        msg = " ".join(str(x) for x in a)
        self.log_lines.append(msg)
        print(f"[{self.prop} {time.time() - self.t0:6.1f}s] {msg}", file=sys.stderr, flush=True)


def do_check(prop: str, tier: str) -> int:
    seed = common.seed_from_env()
    ctx = Ctx(prop, tier, seed)
    mod = importlib.import_module(f"props.{prop.lower()}")
    for stale in common.REPLAYS.glob(f"{prop}_*.json"):  # replays of earlier runs (other trees) must not be mistaken for this run's
        stale.unlink()
    breaks = []  # broken proof obligations / correspondences: dict(kind, what, inputs=[...])
    violations = []  # dict(what, replay payload, found: bool)
    known_lines = []

    # 1. tables regenerated from the imported modules
    import tables

    tab_info = {}
    try:
        tab_info = tables.regenerate(ctx)
    except Exception as ex:  # a table that can no longer be read off the code
        ctx.log("table regeneration failed:", repr(ex))
        breaks.append({"kind": "tables", "what": f"table regeneration failed: {ex!r}", "inputs": [],
                       "trace": traceback.format_exc()})

    # 2. forbidden constructs
    hits = common.grep_forbidden()
    if hits:
        breaks.append({"kind": "proof", "what": "forbidden construct in Lean sources: " + "; ".join(hits[:5]), "inputs": []})

    # 3. build the property's theorems and the driver
    ok, out, wall_build = common.lake_build([f"Props.{prop}", "driver"])
    ctx.log(f"lake build Props.{prop} driver: ok={ok} ({wall_build:.1f}s)")
    build_failed = []
    if not ok:
        build_failed = common.failing_decls(out)
        breaks.append({"kind": "proof", "what": "lake build failed at: " + ", ".join(build_failed or ["?"]),
                       "inputs": [], "output": out[-6000:], "decls": build_failed})
        # the driver may still be buildable on its own (needed for the search)
        ok_driver, out_d, _ = common.lake_build(["driver"])
        if not ok_driver:
            ctx.log("driver does not build")

    # 4. axiom audit
    theorems, bad, audit_out = common.audit(prop)
    obligations = len(theorems)
    discharged = obligations - len(bad)
    ctx.log(f"audit: {discharged}/{obligations} theorems with admissible axioms")
    for name, why in bad.items():
        if ok:  # if the build already failed this is the same break
            breaks.append({"kind": "proof", "what": f"theorem {name}: {why}", "inputs": [], "decls": [name]})

    # 5. correspondence suites and curated oracles against the real code
    suites = []
    driver_ok = ctx.driver.exe.exists()
    if not driver_ok:
        breaks.append({"kind": "proof", "what": "driver executable missing", "inputs": []})
    try:
        suites = mod.suites(ctx) if driver_ok else []
    except Exception as ex:
        ctx.log("suite crashed:", repr(ex))
        breaks.append({"kind": "correspondence", "what": f"suite crashed: {ex!r}", "inputs": [],
                       "trace": traceback.format_exc()})
    known = common.load_known(prop)
    for s in suites:
        ctx.log(f"suite {s.name}: cases={s.cases} nontrivial={len(s.nontrivial)} disagreements={len(s.disagreements)}")
        if not s.disagreements:
            continue
        if s.kind == "oracle":
            # direct property failures on the real code, each with its input
            for d in s.disagreements:
                kf = mod.match_known(d, known) if hasattr(mod, "match_known") else None
                if kf:
                    known_lines.append(f"KNOWN-FINDING: property={prop} {kf['id']}: {kf['what']}")
                else:
                    violations.append({"what": f"oracle {s.name}: {d.get('what', '')}", "input": d, "found": True})
        else:
            breaks.append({"kind": "correspondence", "what": f"suite {s.name}: model and code disagree on {len(s.disagreements)} case(s)",
                           "inputs": s.disagreements[:50], "suite": s.name})

    # 6. known-finding witnesses
    replayed = 0
    if hasattr(mod, "replay_witness"):
        for kf in known:
            if kf["kind"] != "finding" or "witness" not in kf:
                continue
            try:
                still = mod.replay_witness(ctx, kf)
            except Exception as ex:
                still = None
                ctx.log(f"witness {kf['id']} could not be replayed: {ex!r}")
            replayed += 1
            if still:
                known_lines.append(f"KNOWN-FINDING: property={prop} {kf['id']}: {kf['what']}")
            elif still is False:
                ctx.log(f"known finding {kf['id']} no longer fails (stale)")
            if kf.get("theorem") and kf["theorem"] not in theorems and kf["theorem"] != "-":
                ctx.log(f"known finding {kf['id']}: theorem {kf['theorem']} is not in Audit/{prop}.lean")

    # 7. a broken obligation / correspondence is not yet a violation: search the real code
    search_info = {}
    if breaks:
        found = []
        try:
            if hasattr(mod, "search"):
                found = mod.search(ctx, breaks) or []
        except Exception as ex:
            ctx.log("search crashed:", repr(ex), traceback.format_exc())
        new_found = []
        for f in found:
            kf = mod.match_known(f, known) if hasattr(mod, "match_known") else None
            if kf:
                line = f"KNOWN-FINDING: property={prop} {kf['id']}: {kf['what']}"
                if line not in known_lines:
                    known_lines.append(line)
            else:
                new_found.append(f)
        search_info = {"triggered_by": [b["what"] for b in breaks], "failing_inputs_found": len(new_found)}
        if new_found:
            for f in new_found[:5]:
                violations.append({"what": f.get("what", "property fails on the real code"), "input": f, "found": True,
                                   "broken": [b["what"] for b in breaks]})
        else:
            violations.append({"what": "; ".join(b["what"] for b in breaks), "input": None, "found": False,
                               "broken": breaks})

    # 8. evidence
    wall = time.time() - ctx.t0
    samples = []
    for s in suites:
        samples.extend(s.samples[:3])
    cov = {
        "obligations": max(obligations, 1),
        "discharged": discharged if ok else 0,
        "checker_cmd": f"cd lean && lake build +Props.{prop} driver && lake env lean Audit/{prop}.lean",
        "trusted_base": list(getattr(mod, "TRUSTED", [])) + [
            "Lean 4.33.0 kernel; axioms of every listed theorem within {propext, Classical.choice, Quot.sound}",
            "hand-written Lean model, tied to /repo by the correspondence suites listed under 'correspondence'",
            "harness (vcheck.py, tables.py, exporters), compiled Lean JSON driver",
        ],
        "theorems": theorems,
        "theorems_failed": bad,
        "build_ok": ok,
        "build_failed_at": build_failed,
        "correspondence": [s.summary() for s in suites],
        "evaluations": sum(s.cases for s in suites),
        "distinct_nontrivial": sum(len(s.nontrivial) for s in suites),
        "rule": "sum over suites; per-suite generation rule and non-triviality rule in correspondence[i].note",
        "tables": tab_info,
        "known_findings_replayed": replayed,
        "known_findings_reported": known_lines,
        "search": search_info,
        "samples": samples[:12] or [{"note": "no suite ran"}],
    }
    ev = {
        "property_id": prop,
        "tier": tier,
        "seed": seed,
        "level": "proof",
        "coverage": cov,
        "assumptions": list(getattr(mod, "ASSUMPTIONS", [])),
        "wall_s": round(wall, 2),
        "violations": len(violations),
    }
    common.EVIDENCE.mkdir(exist_ok=True)
    (common.EVIDENCE / f"{prop}.json").write_text(json.dumps(ev, indent=1, ensure_ascii=True, default=repr) + "\n")

    for line in dict.fromkeys(known_lines):
        print(line)
    if violations:
        for i, v in enumerate(violations[:6]):
            payload = {"property": prop, "tier": tier, "seed": seed, "what": v["what"], "found_failing_input": v["found"],
                       "input": v["input"], "broken": v.get("broken"),
                       "replay_cmd": f"/venv/bin/python harness/vcheck.py replay replays/{prop}_{i}.json"}
            path = common.write_replay(prop, str(i), payload)
            tail = "" if v["found"] else " no-failing-input-found"
            print(f"VIOLATION property={prop} replay={path}{tail}")
        return 1
    print(f"OK property={prop} tier={tier} seed={seed} obligations={obligations} discharged={discharged} "
          f"cases={cov['evaluations']} wall={wall:.1f}s")
    return 0


def do_replay(path: str) -> int:
    payload = json.loads(Path(path).read_text())
    prop = payload["property"]
    mod = importlib.import_module(f"props.{prop.lower()}")
    if not payload.get("found_failing_input"):
        print(f"replay {path}: no failing input was found; broken obligations / correspondences:")
        print(json.dumps(payload.get("broken"), indent=1)[:4000])
        return 1
    ctx = Ctx(prop, "quick", payload.get("seed", 0))
    if hasattr(mod, "replay"):
        still = mod.replay(ctx, payload["input"])
        print(f"replay {path}: property {'FAILS' if still else 'holds'} on the recorded input")
        return 1 if still else 0
    print("no replay function for", prop)
    return 2


def do_setup() -> int:
    import tables

    ctx = Ctx("setup", "quick", 0)
    try:
        tables.regenerate(ctx)
    except Exception as ex:
        print("table regeneration failed:", repr(ex))
    ok, out, wall = common.lake_build(["PyrefactModel", "Props", "driver"])
    print(out[-3000:])
    print(f"setup build ok={ok} wall={wall:.1f}s")
    return 0 if ok else 2


def main():
    ap = argparse.ArgumentParser()
    sub = ap.add_subparsers(dest="cmd", required=True)
    c = sub.add_parser("check")
    c.add_argument("prop")
    c.add_argument("--tier", default=os.environ.get("VERIF_TIER", "quick"), choices=["quick", "thorough"])
    r = sub.add_parser("replay")
    r.add_argument("path")
    sub.add_parser("setup")
    a = ap.parse_args()
    os.chdir(common.VERIF)
    try:
        if a.cmd == "check":
            sys.exit(do_check(a.prop, a.tier))
        if a.cmd == "replay":
            sys.exit(do_replay(a.path))
        if a.cmd == "setup":
            sys.exit(do_setup())
    except SystemExit:
        raise
    except Exception:
        traceback.print_exc()
        sys.exit(2)


if __name__ == "__main__":
    main()
