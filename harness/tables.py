"""Regenerate lean/PyrefactModel/Generated/*.lean from the *imported* /repo modules (runtime values and
probed behaviour, never source shape).  Called at the start of every check."""
from __future__ import annotations

import hashlib

import common

GENERATORS = []  # list of (filename, function() -> str)


def generator(filename):
    def deco(f):
        GENERATORS.append((filename, f))
        return f

    return deco


def regenerate(ctx):
    import tablegen  # noqa: F401  (registers the generators)

    info = {}
    errors = []
    for filename, fn in GENERATORS:
        try:
            content = fn()
        except Exception as ex:  # keep going: the other tables are still needed
            errors.append(f"{filename}: {ex!r}")
            continue
        path = common.LEAN / "PyrefactModel" / "Generated" / filename
        changed = common.write_if_changed(path, content)
        info[filename] = {"sha256": hashlib.sha256(content.encode()).hexdigest()[:16], "rewritten": changed}
    if errors:
        raise RuntimeError("; ".join(errors))
    return info
