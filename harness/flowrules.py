"""Translation validation of pyrefact's control-flow rules against the proved validator (Lean: C16.validate, theorem
validate_sound).  Labelled skeleton programs are rendered to Python, the REAL rule is applied, input and output are read
back into the skeleton language and the compiled model decides whether their normal forms coincide.  A rewrite that
does not validate is then executed (before / after, all valuations of the unknown tests) to look for a concrete
behavioural difference."""
from __future__ import annotations

import ast
import itertools

import common
from common import Suite

FLOW_RULES = ["fixes.remove_dead_ifs", "fixes.delete_unreachable_code", "fixes.remove_redundant_else", "fixes.swap_if_else", "fixes.early_continue",
              "fixes.early_return", "fixes.breakout_common_code_in_ifs", "abstractions.simplify_if_control_flow"]


class Unsupported(Exception):
    pass


# ------------------------------------------------------------------------------------------------ rendering

def cond_src(c):
    if c == "tt":
        return "True"
    if c == "ff":
        return "False"
    if c[0] == "u":
        return f"u({c[1:]})"
    if c[0] == "n":
        return f"not u({c[1:]})"
    raise ValueError(c)


def render(sts, indent=1, spell_elif=False):
    """spell_elif: an else branch that is exactly one if statement is written `elif` (same syntax tree, other positions)"""
    pad = "    " * indent
    lines = []
    for s in sts:
        k = s[0]
        if k == "if" and spell_elif:
            cur = s
            lines.append(f"{pad}if {cond_src(cur[1])}:")
            while True:
                lines += render(cur[2], indent + 1, True) or [f"{pad}    pass"]
                if len(cur[3]) == 1 and cur[3][0][0] == "if":
                    cur = cur[3][0]
                    lines.append(f"{pad}elif {cond_src(cur[1])}:")
                    continue
                if cur[3]:
                    lines.append(f"{pad}else:")
                    lines += render(cur[3], indent + 1, True)
                break
            continue
        if k == "simple":
            lines.append(f"{pad}t({s[1]})")
        elif k == "ret":
            lines.append(f"{pad}return 7")
        elif k == "raise":
            lines.append(f"{pad}raise ValueError()")
        elif k == "brk":
            lines.append(f"{pad}break")
        elif k == "cont":
            lines.append(f"{pad}continue")
        elif k == "assert":
            lines.append(f"{pad}assert {cond_src(s[1])}")
        elif k == "if":
            lines.append(f"{pad}if {cond_src(s[1])}:")
            lines += render(s[2], indent + 1, spell_elif) or [f"{pad}    pass"]
            if s[3]:
                lines.append(f"{pad}else:")
                lines += render(s[3], indent + 1, spell_elif)
        elif k == "while":
            lines.append(f"{pad}while {cond_src(s[1])}:")
            lines += render(s[2], indent + 1, spell_elif) or [f"{pad}    pass"]
            if len(s) > 3 and s[3]:
                lines.append(f"{pad}else:")
                lines += render(s[3], indent + 1, spell_elif)
        elif k == "for":
            it = {"empty": "[]", "nonempty": "[1, 2]", "unk": "it()"}[s[1]]
            lines.append(f"{pad}for _ in {it}:")
            lines += render(s[2], indent + 1, spell_elif) or [f"{pad}    pass"]
            if len(s) > 3 and s[3]:
                lines.append(f"{pad}else:")
                lines += render(s[3], indent + 1, spell_elif)
        elif k == "try":
            lines.append(f"{pad}try:")
            lines += render(s[1], indent + 1, spell_elif) or [f"{pad}    pass"]
            if s[2] != "none":
                lines.append(f"{pad}except {'Exception' if s[2] == 'all' else 'sel()'}:")
                lines += render(s[3], indent + 1, spell_elif) or [f"{pad}    pass"]
            if s[4] or s[2] == "none":
                lines.append(f"{pad}finally:")
                lines += render(s[4], indent + 1, spell_elif) or [f"{pad}    pass"]
        elif k == "with":
            lines.append(f"{pad}with ctx():")
            lines += render(s[1], indent + 1, spell_elif) or [f"{pad}    pass"]
        else:
            raise ValueError(s)
    return lines


def program(sts, spell_elif=False):
    return "def f():\n" + "\n".join(render(sts, 1, spell_elif) or ["    pass"]) + "\n"


# ------------------------------------------------------------------------------------------------ reading back

def cond_of(e):
    neg = False
    while isinstance(e, ast.UnaryOp) and isinstance(e.op, ast.Not):
        neg = not neg
        e = e.operand
    if isinstance(e, ast.Constant) and e.value in (True, False) and isinstance(e.value, bool):
        return "tt" if e.value != neg else "ff"
    if isinstance(e, ast.Call) and isinstance(e.func, ast.Name) and e.func.id == "u" and len(e.args) == 1 and isinstance(e.args[0], ast.Constant):
        return ("n" if neg else "u") + str(e.args[0].value)
    raise Unsupported(ast.dump(e)[:80])


def skel(nodes):
    out = []
    for n in nodes:
        if isinstance(n, ast.Pass):
            continue
        if isinstance(n, ast.Expr) and isinstance(n.value, ast.Call) and isinstance(n.value.func, ast.Name) and n.value.func.id == "t":
            out.append(["simple", n.value.args[0].value])
        elif isinstance(n, ast.Return):
            if not (isinstance(n.value, ast.Constant) and n.value.value == 7):
                raise Unsupported("return value")
            out.append(["ret"])
        elif isinstance(n, ast.Raise):
            out.append(["raise"])
        elif isinstance(n, ast.Break):
            out.append(["brk"])
        elif isinstance(n, ast.Continue):
            out.append(["cont"])
        elif isinstance(n, ast.Assert):
            out.append(["assert", cond_of(n.test)])
        elif isinstance(n, ast.If):
            out.append(["if", cond_of(n.test), skel(n.body), skel(n.orelse)])
        elif isinstance(n, ast.While):
            out.append(["while", cond_of(n.test), skel(n.body), skel(n.orelse)])
        elif isinstance(n, ast.Try):
            if n.orelse or len(n.handlers) > 1:
                raise Unsupported("try-else / several handlers")
            if not n.handlers:
                out.append(["try", skel(n.body), "none", [], skel(n.finalbody)])
            else:
                h = n.handlers[0]
                if isinstance(h.type, ast.Name) and h.type.id == "Exception":
                    hk = "all"
                elif isinstance(h.type, ast.Call) and isinstance(h.type.func, ast.Name) and h.type.func.id == "sel":
                    hk = "some"
                else:
                    raise Unsupported("handler type")
                out.append(["try", skel(n.body), hk, skel(h.body), skel(n.finalbody)])
        elif isinstance(n, ast.For):
            it = n.iter
            if isinstance(it, ast.List) and not it.elts:
                kind = "empty"
            elif isinstance(it, ast.List) and len(it.elts) == 2:
                kind = "nonempty"
            elif isinstance(it, ast.Call) and isinstance(it.func, ast.Name) and it.func.id == "it":
                kind = "unk"
            else:
                raise Unsupported("iterable")
            out.append(["for", kind, skel(n.body), skel(n.orelse)])
        elif isinstance(n, ast.With):
            out.append(["with", skel(n.body)])
        else:
            raise Unsupported(type(n).__name__)
    return out


def skeleton_of_source(src):
    tree = ast.parse(src)
    if len(tree.body) != 1 or not isinstance(tree.body[0], ast.FunctionDef):
        raise Unsupported("module shape")
    return skel(tree.body[0].body)


# ------------------------------------------------------------------------------------------------ generation

def gen_cond(r, ids):
    x = r.random()
    if x < 0.08:
        return "tt"
    if x < 0.16:
        return "ff"
    return ("n" if r.random() < 0.25 else "u") + str(r.choice(ids))


def gen_list(r, depth, in_loop, ctr, maxlen=4):
    n = r.choice([1, 1, 2, 2, 3, maxlen])
    out = []
    for _ in range(n):
        out.append(gen_stmt(r, depth, in_loop, ctr))
    return out


def gen_simple(r, ctr):
    ctr[0] += 1
    return ["simple", ctr[0]]


def gen_stmt(r, depth, in_loop, ctr):
    x = r.random()
    if depth == 0 or x < 0.35:
        y = r.random()
        if y < 0.6:
            ctr[0] += 1
            return ["simple", r.choice([ctr[0], ctr[0], r.randint(1, 3)])]  # mostly fresh labels, sometimes a repeated one
        if y < 0.75:
            return ["ret"]
        if y < 0.82:
            return ["raise"]
        if in_loop and y < 0.9:
            return ["brk"]
        if in_loop:
            return ["cont"]
        return ["ret"]
    ids = list(range(1, 6))
    if x < 0.75:
        body = gen_list(r, depth - 1, in_loop, ctr)
        orelse = gen_list(r, depth - 1, in_loop, ctr) if r.random() < 0.55 else []
        return ["if", gen_cond(r, ids), body, orelse]
    if x < 0.82:
        orelse = gen_list(r, depth - 1, in_loop, ctr, 2) if r.random() < 0.25 else []
        return ["while", r.choice(["tt", "u" + str(r.choice(ids)), "n" + str(r.choice(ids)), "ff"]), gen_list(r, depth - 1, True, ctr), orelse]
    if x < 0.92:
        orelse = gen_list(r, depth - 1, in_loop, ctr, 2) if r.random() < 0.25 else []
        return ["for", r.choice(["unk", "unk", "nonempty", "empty"]), gen_list(r, depth - 1, True, ctr), orelse]
    if x < 0.96:
        hk = r.choice(["none", "all", "some"])
        hb = gen_list(r, depth - 1, in_loop, ctr, 2) if hk != "none" else []
        f = [gen_simple(r, ctr)] if (hk == "none" or r.random() < 0.4) else []   # no jumps in finally: they would swallow the step budget
        return ["try", gen_list(r, depth - 1, in_loop, ctr, 2), hk, hb, f]
    return ["with", gen_list(r, depth - 1, in_loop, ctr)]


def targeted():
    """shapes the rules are written for"""
    S = lambda k: ["simple", k]  # noqa: E731
    out = []
    for c in ("u1", "n1"):
        for tail in ([["ret"]], [["raise"]], [S(9), ["ret"]]):
            out.append([["if", c, [S(1)] + tail, [S(2), S(3)]], S(4)])                       # redundant else
            out.append([["if", c, [S(1)] + tail, [["if", "u2", [S(2)] + tail, [S(3)]]]], S(4)])  # elif chain
        out.append([["if", c, [S(1), S(2), S(3), S(4), ["ret"]], [["ret"]]]])                # swap: short exit first
        out.append([["if", c, [], [S(1)]]])
        out.append([["if", c, [S(1), S(5)], [S(2), S(5)]], S(6)])                              # common trailing code
        out.append([["if", c, [S(5), S(1)], [S(5), S(2)]], S(6)])                              # common leading code
        out.append([["for", "unk", [S(1), ["if", c, [S(2), S(3), S(4), S(5), S(6), S(7)], []]]]])       # early continue
        out.append([["for", "unk", [["if", c, [S(2), S(3)], [["if", "u2", [S(4)], [["if", "u3", [S(5)], [S(6), S(7), S(8)]]]]]]]]])
        out.append([["while", "tt", [["if", c, [["brk"]], []], S(1)]], S(2)])
        out.append([["while", "tt", [["if", c, [["cont"]], []], S(1)]], S(2)])               # never left: S(2) dead
        out.append([["for", "nonempty", [["if", c, [["ret"]], [["raise"]]]]], S(2)])         # first iteration leaves
        out.append([["if", "tt", [S(1)], [S(2)]], ["if", "ff", [S(3)], [S(4)]], ["while", "ff", [S(5)]], ["if", "ff", [S(6)], []]])
        out.append([["with", [["if", c, [["ret"]], [["raise"]]]]], S(2)])
        out.append([["while", c, [S(1), ["if", "u2", [["brk"]], []]], [S(8), ["ret"]]], S(2)])                    # loop else
        out.append([["for", "unk", [["if", c, [S(1), ["cont"]], [["brk"]]]], [["ret"]]], S(2)])
        out.append([["while", "tt", [["for", "unk", [S(1)], [["brk"]]]], []], S(2)])
        out.append([["try", [["if", c, [["ret"]], [["raise"]]]], "all", [S(1)], [S(2)]], S(3)])               # try
        out.append([["try", [["if", c, [S(1), ["ret"]], [["ret"]]]], "none", [], [S(2)]], S(3)])
        out.append([["if", c, [["try", [S(1), ["raise"]], "some", [["ret"]], []], ["ret"]], [S(2)]], S(3)])
        out.append([["while", "tt", [["try", [["if", c, [["brk"]], []]], "all", [S(1)], []], S(2)], []], S(3)])
        out.append([["if", c, [S(1), ["ret"]], []], ["with", [["if", "u2", [["ret"]], []], S(2), ["ret"]]]])
        # constant tests in every position of an if / elif / else chain (both spellings are rendered by validate_suite)
        for k in ("tt", "ff"):
            out.append([["if", c, [S(1)], [["if", k, [S(2)], [S(3)]]]], S(4)])
            out.append([["if", c, [S(1)], [["if", k, [S(2)], []]]], S(4)])
            out.append([["if", c, [S(1)], [["if", k, [], [S(3), ["if", "u2", [S(5)], []]]]]], S(4)])
            out.append([["if", c, [S(1)], [["if", "u2", [S(2)], [["if", k, [S(3)], [S(5)]]]]]], S(4)])
            out.append([["if", c, [S(1)], [["if", k, [S(2)], [["if", "u2", [S(3)], [S(5)]]]]]], S(4)])
            out.append([["if", k, [S(1)], [["if", c, [S(2)], [S(3)]]]], S(4)])
            out.append([["for", "unk", [["if", c, [S(1)], [["if", k, [["cont"]], [["brk"]]]]]], [S(2)]], S(4)])
    return out


# ------------------------------------------------------------------------------------------------ execution (search)

PRELUDE = '''
class _B(BaseException): pass
def run(bits):
    st = {"pos": 0, "steps": 0, "trace": []}
    def tick():
        st["steps"] += 1
        if st["steps"] > 300: raise _B()
    def t(k):
        tick(); st["trace"].append(("s", k))
    def u(k):
        tick(); st["trace"].append(("t", k)); i = st["pos"]; st["pos"] += 1
        return bits[i] if i < len(bits) else False
    def it():
        while True:
            tick(); i = st["pos"]; st["pos"] += 1
            if not (bits[i] if i < len(bits) else False): return
            yield 1
    class _Never(Exception): pass
    def sel():
        i = st["pos"]; st["pos"] += 1
        return (ValueError, AssertionError) if (bits[i] if i < len(bits) else False) else _Never
    class ctx:
        def __enter__(self): return self
        def __exit__(self, *a): return False
%s
    try:
        r = f()
        out = "ret" if r == 7 else "normal"
    except ValueError: out = "raise"
    except AssertionError: out = "raise"
    except _B: out = "fuel"
    return out, tuple(st["trace"])
'''


def run_all(src, nbits=6):
    env = {}
    body = "\n".join("    " + l for l in src.replace("while True:", "while tick() or True:").splitlines())
    exec(PRELUDE % body, env)
    return [env["run"](list(b)) for b in itertools.product([False, True], repeat=nbits)]


def differs(src_a, src_b):
    """first valuation under which the two functions behave differently (outcome or trace), or None"""
    try:
        ra, rb = run_all(src_a), run_all(src_b)
    except SyntaxError as ex:
        return {"what": f"does not compile: {ex}"}
    for bits, a, b in zip(itertools.product([False, True], repeat=6), ra, rb):
        if a[0] == "fuel" and b[0] == "fuel":
            continue
        if a != b:
            return {"bits": list(bits), "before": [a[0], list(a[1])[-8:]], "after": [b[0], list(b[1])[-8:]]}
    return None


# ------------------------------------------------------------------------------------------------ the suite

def validate_suite(ctx, rules=FLOW_RULES, n_random=(500, 6000)):
    import oracles

    s = Suite("flow-validate")
    r = ctx.rng("flow-validate")
    progs = list(targeted())
    for _ in range(ctx.n(*n_random)):
        progs.append(gen_list(r, r.choice([1, 2, 2, 3]), False, [10]))
    fns = {name: oracles.resolve_rule(name) for name in rules}
    reqs, metas = [], []
    sources = []
    for sts in progs:
        src = program(sts)
        sources.append(src)
        alt = program(sts, spell_elif=True)
        if alt != src:
            sources.append(alt)
    for src in sources:
        try:
            ast.parse(src)
        except SyntaxError:
            continue
        for name, fn in fns.items():
            s.cases += 1
            try:
                out = fn(src)
            except Exception as ex:  # noqa: BLE001  (a crash is C04's business)
                s.count(f"{name}:crash")
                continue
            if out == src:
                continue
            try:
                compile(out, "<rule output>", "exec", dont_inherit=True)
                after = skeleton_of_source(out)
                before = skeleton_of_source(src)
            except SyntaxError:
                s.disagreements.append({"rule": name, "src": src, "out": out, "what": f"{name} returned text that does not compile"})
                continue
            except Unsupported as ex:
                s.count(f"{name}:outside-fragment")
                continue
            reqs.append({"suite": "validate", "a": before, "b": after})
            metas.append((name, src, out))
    answers = ctx.driver.ask(reqs)
    for (name, src, out), ans in zip(metas, answers):
        s.count(f"{name}:{'validated' if ans.get('ok') else 'NOT-validated'}")
        s.nt([name, src])
        if not ans.get("ok"):
            d = {"rule": name, "src": src, "out": out, "normal_form_before": ans.get("na"), "normal_form_after": ans.get("nb"),
                 "what": f"{name}: the rewrite is not validated (normal forms differ)"}
            s.disagreements.append(d)
    s.samples.append({"suite": "flow-validate", "rule": "fixes.swap_if_else", "before": "if not u(1): return 7\\nt(2)", "after": "if u(1): t(2) else: return 7", "validated": True})
    s.note = ("labelled skeleton functions (targeted shapes + random, nesting <= 3) rendered to Python, in both spellings of a nested if in an else branch (else: if / elif); each control-flow rule applied by the REAL code; input and output "
              "read back and compared by the proved validator (equal normal forms => same outcome, oracle position and trace under every valuation); histogram = per rule "
              "validated / outside the fragment; non-trivial = the rule changed the text")
    return s


def search(disagreements):
    """concrete valuation under which a non-validated rewrite changes behaviour"""
    found = []
    for d in disagreements:
        if "src" in d and "out" in d:
            w = differs(d["src"], d["out"])
            if w:
                found.append({"rule": d["rule"], "src": d["src"], "out": d["out"], "witness": w,
                              "what": f"{d['rule']} changes behaviour under the valuation {w.get('bits')}: {w.get('before')} -> {w.get('after')}"})
    return found
